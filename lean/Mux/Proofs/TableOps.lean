/-
  Mux.Proofs.TableOps — the tree operations on a tree with the invariant `Sh`: `findPath` (sound and
  complete), `modifyAt`, `removeAt`, `Node.clean`, `Node.applyMw` keep the invariant, and their effect
  on the entries `liveL`.
-/
import Mux.Proofs.TableUniq
namespace Mux.P11
open Mux

theorem hasPrefix_iff (s p : Bytes) : hasPrefix s p = true ↔ p <+: s := by
  unfold hasPrefix; exact List.isPrefixOf_iff_prefix

/-! ## `getAt` -/

theorem getAtL_cons_zero (c : Node) (cs : List Node) (p : List Nat) : getAtL (c :: cs) 0 p = c.getAt p := by
  simp [getAtL]
theorem getAtL_cons_succ (c : Node) (cs : List Node) (i : Nat) (p : List Nat) :
    getAtL (c :: cs) (i + 1) p = getAtL cs i p := by simp [getAtL]
theorem Node.getAt_cons' (n : Node) (i : Nat) (p : List Nat) : n.getAt (i :: p) = getAtL n.children i p := by
  cases n; simp [Node.getAt]

theorem getAt_mem : ∀ (p : List Nat) (n x : Node), n.getAt p = some x → x ∈ n.nodes := by
  intro p
  induction p with
  | nil => intro n x h; simp at h; subst h; rw [Node.nodes_eq]; simp
  | cons i p ih =>
    intro n x h
    rw [Node.getAt_cons] at h
    cases hc : n.children[i]? with
    | none => simp [hc] at h
    | some c =>
      simp only [hc, Option.bind_some] at h
      rw [Node.nodes_eq]
      exact List.mem_cons_of_mem _ (mem_nodesL.2 ⟨c, List.mem_of_getElem? hc, ih c x h⟩)

theorem getAt_mem_below {n x : Node} {i : Nat} {p : List Nat} (h : n.getAt (i :: p) = some x) :
    x ∈ nodesL n.children := by
  rw [Node.getAt_cons] at h
  cases hc : n.children[i]? with
  | none => simp [hc] at h
  | some c =>
    simp only [hc, Option.bind_some] at h
    exact mem_nodesL.2 ⟨c, List.mem_of_getElem? hc, getAt_mem p c x h⟩

/-! ## `findPath` -/

theorem findPath_sound (ic : Interceptors) :
    ∀ n : Node, Node.All (Sh ic) n → ∀ pat p, n.findPath pat = some p →
      ∃ x, n.getAt p = some x ∧ x.pattern = n.pattern ++ pat ∧ p ≠ [] := by
  intro n
  induction n using Node.rec (motive_2 := fun cs => ∀ pp, ShL ic pp cs → AllL (Sh ic) cs → ∀ i pat p,
      findIn cs i pat = some p → ∃ k p' x, p = (i + k) :: p' ∧ getAtL cs k p' = some x ∧ x.pattern = pp ++ pat) with
  | mk s pt mi hs idx cs ih =>
    intro h pat p hp
    simp only [Node.findPath] at hp
    obtain ⟨k, p', x, rfl, hx, hxp⟩ := ih pt h.1 h.2 0 pat p hp
    exact ⟨x, by simpa [Node.getAt] using hx, hxp, by simp⟩
  | nil => rename_i pp _ _ i pat p h; simp [findIn] at h
  | cons c cs ih1 ih2 =>
    rename_i pp hsh hall i pat p h
    obtain ⟨hco, _, hsho⟩ := ShL_cons.1 hsh
    rw [AllL_cons_iff] at hall
    simp only [findIn] at h
    split at h
    · rename_i hv
      simp only [Option.some.injEq] at h
      subst h
      exact ⟨0, [], c, rfl, by simp [getAtL], by rw [hco.2.2.1, hv]⟩
    · split at h
      · rename_i hpre
        have hpat : pat = c.seg.value ++ pat.drop c.seg.value.length := by
          obtain ⟨t, rfl⟩ := (hasPrefix_iff _ _).1 hpre
          simp
        split at h
        · rename_i q hq
          simp only [Option.some.injEq] at h
          subst h
          obtain ⟨x, hx, hxp, _⟩ := ih1 hall.1 _ q hq
          refine ⟨0, q, x, rfl, by simpa [getAtL] using hx, ?_⟩
          rw [hxp, hco.2.2.1, List.append_assoc, ← hpat]
        · obtain ⟨k, p', x, rfl, hx, hxp⟩ := ih2 pp hsho hall.2 (i + 1) pat p h
          exact ⟨k + 1, p', x, by simp; omega, by simpa [getAtL] using hx, hxp⟩
      · obtain ⟨k, p', x, rfl, hx, hxp⟩ := ih2 pp hsho hall.2 (i + 1) pat p h
        exact ⟨k + 1, p', x, by simp; omega, by simpa [getAtL] using hx, hxp⟩

theorem findPath_complete (ic : Interceptors) :
    ∀ n : Node, Node.All (Sh ic) n → ∀ pat, (∃ x ∈ nodesL n.children, x.pattern = n.pattern ++ pat) →
      (n.findPath pat).isSome = true := by
  intro n
  induction n using Node.rec (motive_2 := fun cs => ∀ pp, ShL ic pp cs → AllL (Sh ic) cs → ∀ i pat,
      (∃ x ∈ nodesL cs, x.pattern = pp ++ pat) → (findIn cs i pat).isSome = true) with
  | mk s pt mi hs idx cs ih =>
    intro h pat hx
    simp only [Node.findPath]
    exact ih pt h.1 h.2 0 pat hx
  | nil => rename_i pp _ _ i pat h; obtain ⟨x, hx, _⟩ := h; simp [nodesL] at hx
  | cons c cs ih1 ih2 =>
    rename_i pp hsh hall i pat h
    obtain ⟨hco, _, hsho⟩ := ShL_cons.1 hsh
    rw [AllL_cons_iff] at hall
    obtain ⟨x, hx, hxp⟩ := h
    simp only [findIn]
    split
    · rfl
    · rename_i hv
      rw [nodesL_cons] at hx
      have htail : x ∈ nodesL cs → (findIn cs (i + 1) pat).isSome = true :=
        fun hx' => ih2 pp hsho hall.2 (i + 1) pat ⟨x, hx', hxp⟩
      rcases List.mem_cons.1 hx with rfl | hx
      · exfalso
        rw [hco.2.2.1] at hxp
        exact hv (List.append_cancel_left hxp)
      · rcases List.mem_append.1 hx with hx | hx
        · obtain ⟨r, _, hr⟩ := below_pattern ic c hall.1 x hx
          rw [hr, hco.2.2.1, List.append_assoc] at hxp
          have hpat := (List.append_cancel_left hxp).symm
          have hpre : hasPrefix pat c.seg.value = true := (hasPrefix_iff _ _).2 ⟨r, hpat.symm⟩
          simp only [hpre, if_true]
          have hsome := ih1 hall.1 (pat.drop c.seg.value.length) ⟨x, hx, by rw [hr, hpat]; simp⟩
          cases hf : c.findPath (pat.drop c.seg.value.length) with
          | none => rw [hf] at hsome; cases hsome
          | some q => rfl
        · split
          · split
            · rfl
            · exact htail hx
          · exact htail hx

/-! ## `modifyAt` -/

/-- `f` touches only `methodIndex`/`handlers`. -/
def KeepsShapeE (f : Node → Except Err Node) : Prop :=
  ∀ m m', f m = .ok m' → m'.seg = m.seg ∧ m'.pattern = m.pattern ∧ m'.children = m.children

theorem Sh_congr {ic : Interceptors} {m m' : Node} (hp : m'.pattern = m.pattern) (hc : m'.children = m.children)
    (h : Sh ic m) : Sh ic m' := by
  unfold Sh at *; rw [hp, hc]; exact h

theorem ChildOk_congr {ic : Interceptors} {pp : Bytes} {c c' : Node} (hs : c'.seg = c.seg)
    (hp : c'.pattern = c.pattern) (hc : c.children = [] → c'.children = []) (h : ChildOk ic pp c) :
    ChildOk ic pp c' := by
  unfold ChildOk at *
  rw [hs, hp]
  exact ⟨h.1, h.2.1, h.2.2.1, fun hcl => hc (h.2.2.2 hcl)⟩

/-- What `modifyAt`/`removeAt` guarantee about the top node. -/
structure TopOk (ic : Interceptors) (n n' : Node) : Prop where
  all : Node.All (Sh ic) n'
  seg : n'.seg = n.seg
  pat : n'.pattern = n.pattern
  leaf : n.children = [] → n'.children = []

/-- The result type of the `modifyAt` lemmas. -/
def ModPost (ic : Interceptors) (f : Node → Except Err Node) (path : List Nat) : Prop :=
  ∀ (n n' x : Node), Node.All (Sh ic) n → n.getAt path = some x → n.modifyAt f path = .ok n' →
    TopOk ic n n' ∧ ∃ x' A B, f x = .ok x' ∧ liveN n = A ++ ent x ++ B ∧ liveN n' = A ++ ent x' ++ B

theorem modifyAtL_aux (ic : Interceptors) (f : Node → Except Err Node) (path : List Nat)
    (ih : ModPost ic f path) :
    ∀ (cs cs' : List Node) (k : Nat) (pp : Bytes) (x : Node), ShL ic pp cs → AllL (Sh ic) cs →
      getAtL cs k path = some x → modifyAtL f cs k path = .ok cs' →
      ShL ic pp cs' ∧ AllL (Sh ic) cs' ∧ cs'.map ckey = cs.map ckey ∧
        ∃ x' A B, f x = .ok x' ∧ liveL cs = A ++ ent x ++ B ∧ liveL cs' = A ++ ent x' ++ B := by
  intro cs
  induction cs with
  | nil => intro cs' k pp x _ _ hx; simp [getAtL] at hx
  | cons c cs ihc =>
    intro cs' k pp x hsh hall hx h
    obtain ⟨hco, hkeys, hsho⟩ := ShL_cons.1 hsh
    rw [AllL_cons_iff] at hall
    cases k with
    | zero =>
      rw [getAtL_cons_zero] at hx
      simp only [modifyAtL, bind, Except.bind, pure, Except.pure] at h
      split at h
      · cases h
      rename_i c' hc'
      simp only [Except.ok.injEq] at h
      subst h
      obtain ⟨top, x', A, B, hfx, e1, e2⟩ := ih c c' x hall.1 hx hc'
      have hck : ckey c' = ckey c := by unfold ckey; rw [top.seg]
      refine ⟨ShL_cons.2 ⟨ChildOk_congr top.seg top.pat top.leaf hco, ?_, hsho⟩,
        AllL_cons_iff.2 ⟨top.all, hall.2⟩, by simp [hck], x', A, B ++ liveL cs, hfx, ?_, ?_⟩
      · intro d hd; rw [hck]; exact hkeys d hd
      · rw [liveL_cons, e1]; simp
      · rw [liveL_cons, e2]; simp
    | succ k =>
      rw [getAtL_cons_succ] at hx
      simp only [modifyAtL, bind, Except.bind, pure, Except.pure] at h
      split at h
      · cases h
      rename_i cs1 hcs1
      simp only [Except.ok.injEq] at h
      subst h
      obtain ⟨h1, h2, hk1, x', A, B, hfx, e1, e2⟩ := ihc cs1 k pp x hsho hall.2 hx hcs1
      refine ⟨?_, AllL_cons_iff.2 ⟨hall.1, h2⟩, by simp [hk1], x', liveN c ++ A, B, hfx, ?_, ?_⟩
      · refine ShL_cons.2 ⟨hco, ?_, h1⟩
        intro d hd
        have : ckey d ∈ cs1.map ckey := List.mem_map_of_mem hd
        rw [hk1, List.mem_map] at this
        obtain ⟨d0, hd0, e⟩ := this
        rw [← e]; exact hkeys d0 hd0
      · rw [liveL_cons, e1]; simp
      · rw [liveL_cons, e2]; simp

/-- `modifyAt` along a non-empty path, in terms of the children of the top node. -/
theorem modifyAt_cons_aux (ic : Interceptors) (f : Node → Except Err Node) (i : Nat) (path : List Nat)
    (ih : ModPost ic f path) (n n' x : Node) (hn : Node.All (Sh ic) n) (hx : n.getAt (i :: path) = some x)
    (h : n.modifyAt f (i :: path) = .ok n') :
    TopOk ic n n' ∧ n'.handlers = n.handlers ∧ n'.methodIndex = n.methodIndex ∧ n'.indexes = n.indexes ∧
      n'.children.length = n.children.length ∧
      ∃ x' A B, f x = .ok x' ∧ liveL n.children = A ++ ent x ++ B ∧ liveL n'.children = A ++ ent x' ++ B := by
  cases n with
  | mk s p mi hs idx cs =>
    simp only [Node.getAt] at hx
    simp only [Node.modifyAt, bind, Except.bind, pure, Except.pure] at h
    split at h
    · cases h
    rename_i cs' hcs'
    simp only [Except.ok.injEq] at h
    subst h
    obtain ⟨h1, h2, h3, x', A, B, hfx, e1, e2⟩ := modifyAtL_aux ic f path ih cs cs' i p x hn.1 hn.2 hx hcs'
    have hlen : cs'.length = cs.length := by
      have := congrArg List.length h3; simpa using this
    have hleaf : cs = [] → cs' = [] := by
      intro e; rw [e] at hlen; exact List.eq_nil_of_length_eq_zero hlen
    exact ⟨⟨⟨h1, h2⟩, rfl, rfl, hleaf⟩, rfl, rfl, rfl, hlen, x', A, B, hfx, e1, e2⟩

theorem modifyAt_sh (ic : Interceptors) (f : Node → Except Err Node) (hf : KeepsShapeE f) :
    ∀ (path : List Nat), ModPost ic f path := by
  intro path
  induction path with
  | nil =>
    intro n n' x hn hx h
    simp only [Node.getAt_nil, Option.some.injEq] at hx
    subst hx
    have h' : f n = .ok n' := by cases n; simpa [Node.modifyAt] using h
    obtain ⟨h1, h2, h3⟩ := hf _ _ h'
    refine ⟨⟨?_, h1, h2, fun e => by rw [h3, e]⟩, n', [], liveL n.children, h', by simp [liveN], by simp [liveN, h3]⟩
    rw [Node.All_iff] at hn ⊢
    exact ⟨Sh_congr h2 h3 hn.1, by rw [h3]; exact hn.2⟩
  | cons i path ih =>
    intro n n' x hn hx h
    obtain ⟨top, hhs, _, _, _, x', A, B, hfx, e1, e2⟩ := modifyAt_cons_aux ic f i path ih n n' x hn hx h
    refine ⟨top, x', ent n ++ A, B, hfx, ?_, ?_⟩
    · simp only [liveN, e1]; simp
    · have : ent n' = ent n := ent_congr top.pat hhs
      simp only [liveN, e2, this]; simp

theorem modifyAt_cons_sh (ic : Interceptors) (f : Node → Except Err Node) (hf : KeepsShapeE f) (i : Nat)
    (path : List Nat) (n n' x : Node) (hn : Node.All (Sh ic) n) (hx : n.getAt (i :: path) = some x)
    (h : n.modifyAt f (i :: path) = .ok n') :
    TopOk ic n n' ∧ n'.handlers = n.handlers ∧ n'.methodIndex = n.methodIndex ∧ n'.indexes = n.indexes ∧
      n'.children.length = n.children.length ∧
      ∃ x' A B, f x = .ok x' ∧ liveL n.children = A ++ ent x ++ B ∧ liveL n'.children = A ++ ent x' ++ B :=
  modifyAt_cons_aux ic f i path (modifyAt_sh ic f hf path) n n' x hn hx h

end Mux.P11
