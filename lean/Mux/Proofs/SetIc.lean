/-
  Mux.Proofs.SetIc — extending the interceptor table (`Hosts.RegisterInterceptor`) keeps all tree invariants
  provided no regexp segment stored in the tree uses the new rule text: every stored segment is then still what
  `newSegment` (under the extended table) makes of its text.
-/
import Mux.Proofs.ReachAll
namespace Mux.P14
open Mux

theorem find_append_some {ic : Interceptors} {r : Bytes} {i : IcptId} (h : ic.find r = some i) (x : Bytes × IcptId) :
    Interceptors.find (ic ++ [x]) r = some i := by
  unfold Interceptors.find at h ⊢
  rw [List.find?_append]
  cases hf : List.find? (fun e => decide (e.1 = r)) ic with
  | none => rw [hf] at h; cases h
  | some e => rw [hf] at h; simpa using h

theorem find_append_none {ic : Interceptors} {r rule : Bytes} (h : ic.find r = none) (hne : r ≠ rule) (id : IcptId) :
    Interceptors.find (ic ++ [(rule, id)]) r = none := by
  unfold Interceptors.find at h ⊢
  rw [List.find?_append]
  cases hf : List.find? (fun e => decide (e.1 = r)) ic with
  | some e => rw [hf] at h; cases h
  | none =>
    have : ¬ rule = r := fun e => hne e.symm
    simp [this]

theorem finishRuled_mono {ic : Interceptors} {v : Bytes} {st en sp : Nat} {s : Seg} {rule : Bytes} (id : IcptId)
    (h : finishRuled ic v st en sp = .ok s) (hc : s.kind = .rx → s.rule ≠ rule) :
    finishRuled (ic ++ [(rule, id)]) v st en sp = .ok s := by
  unfold finishRuled at h ⊢
  simp only at h ⊢
  cases hf : ic.find ((v.take en).drop (sp + 1)) with
  | some i =>
    rw [hf] at h
    rw [find_append_some hf]
    exact h
  | none =>
    rw [hf] at h
    simp only at h
    split at h
    · cases h
    · split at h
      · cases h
      · rename_i re hre
        simp only [Except.ok.injEq] at h
        have hne : (v.take en).drop (sp + 1) ≠ rule := by
          have := hc (by rw [← h])
          rw [← h] at this
          exact this
        rw [find_append_none hf hne]
        simp only
        rw [if_neg (by assumption), h]

/-- A stored segment is still `newSegment` of its text under the extended table. -/
theorem newSegment_mono {ic : Interceptors} {v : Bytes} {s : Seg} {rule : Bytes} (id : IcptId)
    (h : newSegment ic v = .ok s) (hc : s.kind = .rx → s.rule ≠ rule) :
    newSegment (ic ++ [(rule, id)]) v = .ok s := by
  rw [newSegment_closed] at h ⊢
  split at h
  · cases h
  rename_i hlen
  rw [if_neg hlen]
  split at h
  · rename_i st en hst hen
    split at h
    · exact h
    · rename_i sp hsp
      split at h
      · cases h
      rename_i h1
      rw [if_neg h1]
      split at h
      · rename_i h2; rw [if_pos h2]; exact h
      rename_i h2
      rw [if_neg h2]
      split at h
      · rename_i h3; rw [if_pos h3]; exact h
      rename_i h3
      rw [if_neg h3]
      split at h
      · cases h
      rename_i h4
      rw [if_neg h4]
      exact finishRuled_mono id h hc
  · exact h

/-- No regexp segment below `cs` uses `rule`. -/
def RuleFree (rule : Bytes) (cs : List Node) : Prop := ∀ n ∈ nodesL cs, n.seg.kind = .rx → n.seg.rule ≠ rule

theorem RuleFree.child {rule : Bytes} {cs : List Node} (h : RuleFree rule cs) {c : Node} (hc : c ∈ cs) :
    (c.seg.kind = .rx → c.seg.rule ≠ rule) ∧ RuleFree rule c.children := by
  refine ⟨h c (P11.mem_nodesL.2 ⟨c, hc, by rw [Node.nodes_eq]; exact List.mem_cons_self⟩), fun n hn => ?_⟩
  exact h n (P11.mem_nodesL.2 ⟨c, hc, by rw [Node.nodes_eq]; exact List.mem_cons_of_mem _ hn⟩)

theorem RuleFree.tail {rule : Bytes} {c : Node} {cs : List Node} (h : RuleFree rule (c :: cs)) : RuleFree rule cs :=
  fun n hn => h n (by rw [P11.nodesL_cons]; exact List.mem_cons_of_mem _ (List.mem_append_right _ hn))

/-- `SOk2` / `Sh` under the extended table. -/
theorem allS2_setIc {ic : Interceptors} {rule : Bytes} (id : IcptId) :
    ∀ n : Node, RuleFree rule n.children → Node.All (P8.SOk2 ic) n → Node.All (P8.SOk2 (ic ++ [(rule, id)])) n := by
  intro n
  induction n using Node.rec (motive_2 := fun cs => RuleFree rule cs → AllL (P8.SOk2 ic) cs →
      AllL (P8.SOk2 (ic ++ [(rule, id)])) cs) with
  | mk s p mi hs idx cs ih =>
    intro hf h
    refine ⟨⟨⟨fun c hc => ?_, h.1.1.sorted, h.1.1.index⟩, h.1.2⟩, ih hf h.2⟩
    obtain ⟨h1, h2, h3⟩ := h.1.1.child c hc
    exact ⟨h1, h2, newSegment_mono id h3 (hf.child hc).1⟩
  | nil => trivial
  | cons c cs ih1 ih2 =>
    rename_i hf h
    exact ⟨ih1 (hf.child List.mem_cons_self).2 h.1, ih2 hf.tail h.2⟩

theorem allSh_setIc {ic : Interceptors} {rule : Bytes} (id : IcptId) :
    ∀ n : Node, RuleFree rule n.children → Node.All (P11.Sh ic) n → Node.All (P11.Sh (ic ++ [(rule, id)])) n := by
  intro n
  induction n using Node.rec (motive_2 := fun cs => RuleFree rule cs → AllL (P11.Sh ic) cs →
      AllL (P11.Sh (ic ++ [(rule, id)])) cs) with
  | mk s p mi hs idx cs ih =>
    intro hf h
    refine ⟨⟨fun c hc => ?_, h.1.2⟩, ih hf h.2⟩
    obtain ⟨h1, h2, h3⟩ := h.1.1 c hc
    exact ⟨h1, newSegment_mono id h2 (hf.child hc).1, h3⟩
  | nil => trivial
  | cons c cs ih1 ih2 =>
    rename_i hf h
    exact ⟨ih1 (hf.child List.mem_cons_self).2 h.1, ih2 hf.tail h.2⟩

/-- `WfL` under the extended table. -/
theorem wfL_setIc {ic : Interceptors} {rule : Bytes} (id : IcptId) :
    ∀ (cs : List Node) (used : List Bytes), RuleFree rule cs → P9.WfL ic used cs → P9.WfL (ic ++ [(rule, id)]) used cs := by
  have hnode : ∀ n : Node, ∀ used, (n.seg.kind = .rx → n.seg.rule ≠ rule) → RuleFree rule n.children →
      P9.Node.Wf ic used n → P9.Node.Wf (ic ++ [(rule, id)]) used n := by
    intro n
    induction n using Node.rec (motive_2 := fun cs => ∀ used, RuleFree rule cs → P9.WfL ic used cs →
        P9.WfL (ic ++ [(rule, id)]) used cs) with
    | mk s p mi hs idx cs ih =>
      intro used hk hf h
      simp only [P9.Node.Wf] at h ⊢
      exact ⟨⟨newSegment_mono id h.1.seg hk, h.1.wf, h.1.ne⟩, h.2.1, h.2.2.1, ih _ hf h.2.2.2⟩
    | nil => trivial
    | cons c cs ih1 ih2 =>
      rename_i used hf h
      simp only [P9.WfL] at h ⊢
      exact ⟨ih1 used (hf.child List.mem_cons_self).1 (hf.child List.mem_cons_self).2 h.1, h.2.1, ih2 used hf.tail h.2.2⟩
  intro cs
  induction cs with
  | nil => intro _ _ _; trivial
  | cons c cs ih =>
    intro used hf h
    simp only [P9.WfL] at h ⊢
    exact ⟨hnode c used (hf.child List.mem_cons_self).1 (hf.child List.mem_cons_self).2 h.1, h.2.1, ih used hf.tail h.2.2⟩

/-- **All invariants survive the registration of an interceptor whose rule no stored regexp segment uses.** -/
theorem AllInv.setIc {t : Tree} (h : AllInv t) (id : IcptId) {rule : Bytes} (hf : RuleFree rule t.root.children) :
    AllInv { t with ic := t.ic ++ [(rule, id)] } :=
  ⟨⟨allS2_setIc id t.root hf h.s2.all, h.s2.rootPat⟩,
   wfL_setIc id t.root.children [] hf h.wf,
   ⟨⟨h.ti.inv2.toTreeInv.setIc _, h.ti.inv2.counts⟩, h.ti.gq, allSh_setIc id t.root hf h.ti.sh, h.ti.rootPat⟩⟩

end Mux.P14
