/-
  Mux.Proofs.TableTree — the tree invariant `TInv` of C03 (the first-wave `TreeInv2`, the handler-map
  invariant `GQ`, the structural invariant `Sh`), its preservation by the four operations, and the
  effect of each operation on the entries `liveL t.root.children`.
-/
import Mux.Proofs.TableInv
namespace Mux.P11
open Mux

structure TInv (t : Tree) : Prop where
  inv2 : TreeInv2 t
  gq : AllL (NodeOk (GQ t.hasTrace)) t.root.children
  sh : Node.All (Sh t.ic) t.root
  rootPat : t.root.pattern = []

theorem TInv_new (name : Bytes) (ic : Interceptors) (nf : Handler) (tr : Option Handler)
    (ob : Base := .options) (nb : Base := .notAllowed) : TInv (Tree.new name ic nf tr ob nb) := by
  refine ⟨inv2_new name ic nf tr ob nb, ?_, ?_, rfl⟩
  · simp [Tree.new, AllL]
  · simp only [Tree.new, Node.All, AllL, and_true]
    exact ShL_nil _ _

theorem effMethods_ne_nil (methods : List Bytes) : effMethods methods ≠ [] := by
  unfold effMethods
  split
  · decide
  · rename_i h; intro e; rw [e] at h; simp at h

theorem add_ok' {t t' : Tree} {p : Bytes} {h : Handler} {ms : List Nat} {methods : List Bytes}
    (he : t.add p h ms methods = .ok t') :
    ∃ segs v rest root1 path root2,
      split t.ic p = .ok segs ∧
      t.checkMethods p (effMethods methods) [] = .ok () ∧
      splitString p = v :: rest ∧
      getNode t.ic t.root v rest = .ok (root1, path) ∧
      root1.modifyAt (t.addMethodsNode h p ms (effMethods methods)) path = .ok root2 ∧
      t' = ({ t with root := root2 }).bumpMethods (effMethods methods) := by
  unfold Tree.add at he
  simp only [bind, Except.bind, pure, Except.pure] at he
  split at he
  · simp at he
  split at he
  · simp [throw, throwThe, MonadExceptOf.throw] at he
  · split at he
    · simp at he
    rename_i segs hsplit
    split at he
    · simp at he
    rename_i hcm
    split at he
    · simp [throw, throwThe, MonadExceptOf.throw] at he
    rename_i v rest hsp
    split at he
    · simp at he
    rename_i r1 hr1
    split at he
    · simp at he
    rename_i root2 hroot2
    simp only [Except.ok.injEq] at he
    exact ⟨segs, v, rest, r1.1, r1.2, root2, hsplit, hcm, hsp, hr1, hroot2, he.symm⟩

theorem All_setHandlers {ic : Interceptors} {n : Node} (hs : AMap Handler) (mi : Nat)
    (h : Node.All (Sh ic) n) : Node.All (Sh ic) (n.setHandlers hs mi) := by
  rw [Node.All_iff] at h ⊢
  exact ⟨Sh_congr (by simp [Node.setHandlers]) (by simp [Node.setHandlers]) h.1,
    by simpa [Node.setHandlers] using h.2⟩

/-- `Tree.add` of a well-formed pattern: the invariant survives, the entries change at one place. -/
theorem add_effect {t t' : Tree} {p : Bytes} {h : Handler} {ms : List Nat} {methods : List Bytes}
    (hinv : TInv t) (hw : WfPattern p = true) (he : t.add p h ms methods = .ok t') :
    TInv t' ∧ ∃ x x' A B, (liveL t.root.children).Perm (A ++ ent x ++ B) ∧
      liveL t'.root.children = A ++ ent x' ++ B ∧ x.pattern = p ∧
      t.addMethodsNode h p ms (effMethods methods) x = .ok x' ∧
      t.checkMethods p (effMethods methods) [] = .ok () ∧
      t'.counts = (effMethods methods).foldl (fun a m => a.set m ((a.get? m).getD 0 + 1)) t.counts := by
  have hstep : t.step (.add p h ms methods) = t' := by simp [Tree.step, he]
  obtain ⟨segs, v, rest, root1, path, root2, hsplit, hcm, hsp, hget, hmod, rfl⟩ := add_ok' he
  have hpc := split_pieces t.ic hw hsplit hsp
  have G := getNode_shape t.ic t.root v rest (root1, path) hinv.sh hpc hget
  obtain ⟨x, hx, hxp⟩ := G.target
  have hxp' : x.pattern = p := by
    rw [hxp, hinv.rootPat, List.nil_append, ← List.flatten_cons, ← hsp, splitString_join]
  cases path with
  | nil => exact absurd rfl G.path
  | cons i path =>
    simp only at hx G
    obtain ⟨top, hhs, _, hidx, hlen, x', A, B, hfx, e1, e2⟩ :=
      modifyAt_cons_sh t.ic _ (addMethodsNode_keeps t h p ms (effMethods methods)) i path root1 root2 x G.all hx hmod
    obtain ⟨_, ha1, _⟩ := getNode_post t.ic (GQ t.hasTrace) (GQ_empty _) t.root v rest _
      hinv.inv2.rootIdx hinv.gq hget
    simp only at ha1
    obtain ⟨_, _, _, _, _, _, ha2⟩ := modifyAt_cons_top (Q := GQ t.hasTrace) _
      (addMethodsNode_gq t h p ms (effMethods methods) (effMethods_ne_nil methods)) ha1 hmod
    refine ⟨⟨hstep ▸ inv2_step hinv.inv2 _, ?_, ?_, ?_⟩, x, x', A, B, ?_, ?_, hxp', hfx, hcm, rfl⟩
    · simpa [Tree.bumpMethods, Node.setHandlers, Tree.hasTrace] using ha2
    · exact All_setHandlers _ _ top.all
    · simp only [Tree.bumpMethods, Node.setHandlers, Node.pattern_mk]
      rw [top.pat, G.pat]; exact hinv.rootPat
    · rw [← e1]; exact G.live.symm
    · simpa [Tree.bumpMethods, Node.setHandlers] using e2

theorem remove_inv {t t' : Tree} {p : Bytes} {methods : List Bytes} (he : t.remove p methods = .ok t') :
    (t' = t ∧ t.root.findPath p = none) ∨ ∃ path root1, t.root.findPath p = some path ∧
      t.root.removeAt (removeMethods t.hasTrace methods) path = .ok root1 ∧
      t' = ({ t with root := root1 }).recount := by
  unfold Tree.remove at he
  split at he
  · rename_i hnone
    simp only [Except.ok.injEq] at he; exact .inl ⟨he.symm, hnone⟩
  · rename_i path hpath
    simp only [bind, Except.bind, pure, Except.pure] at he
    split at he
    · simp at he
    rename_i root1 hroot1
    simp only [Except.ok.injEq] at he
    exact .inr ⟨path, root1, hpath, hroot1, he.symm⟩

/-- `Tree.remove`: the invariant survives; either nothing happens (no node has the pattern) or the
handler map of THE node with that pattern is reduced. -/
theorem remove_effect {t t' : Tree} {p : Bytes} {methods : List Bytes}
    (hinv : TInv t) (he : t.remove p methods = .ok t') :
    TInv t' ∧ ((t' = t ∧ ∀ x ∈ nodesL t.root.children, x.pattern ≠ p) ∨
      ∃ x A B root1, x ∈ nodesL t.root.children ∧ x.pattern = p ∧
        liveL t.root.children = A ++ ent x ++ B ∧
        liveL t'.root.children = A ++ ent (removeMethods t.hasTrace methods x) ++ B ∧
        t' = ({ t with root := root1 }).recount) := by
  have hstep : t.step (.remove p methods) = t' := by simp [Tree.step, he]
  rcases remove_inv he with ⟨rfl, hnone⟩ | ⟨path, root1, hpath, hrem, rfl⟩
  · refine ⟨hinv, .inl ⟨rfl, ?_⟩⟩
    intro x hx hxp
    have := findPath_complete t'.ic t'.root hinv.sh p ⟨x, hx, by rw [hxp, hinv.rootPat]; rfl⟩
    rw [hnone] at this; cases this
  · obtain ⟨x, hx, hxp, hne⟩ := findPath_sound t.ic t.root hinv.sh p path hpath
    rw [hinv.rootPat, List.nil_append] at hxp
    cases path with
    | nil => exact absurd rfl hne
    | cons i path =>
      obtain ⟨top, hhs, _, A, B, e1, e2⟩ :=
        removeAt_cons_sh t.ic _ (removeMethods_keeps t.hasTrace methods) i path t.root root1 x hinv.sh hx hrem
      have ih := removeAt_All_aux (Q := GQ t.hasTrace) (removeMethods t.hasTrace methods)
        (removeMethods_gq t.hasTrace methods) path
      obtain ⟨_, _, _, _, _, ha⟩ := removeAt_cons_top _ path ih hinv.inv2.rootIdx hinv.gq hrem
      refine ⟨⟨hstep ▸ inv2_step hinv.inv2 _, ?_, ?_, ?_⟩, .inr ⟨x, A, B, root1, getAt_mem_below hx, hxp, e1, ?_, rfl⟩⟩
      · simpa [Tree.recount, Node.setHandlers, Tree.hasTrace] using ha
      · exact All_setHandlers _ _ top.all
      · simp only [Tree.recount, Node.setHandlers, Node.pattern_mk]
        rw [top.pat]; exact hinv.rootPat
      · simpa [Tree.recount, Node.setHandlers] using e2

/-- `Tree.clean`: the invariant survives; exactly the entries whose pattern has the prefix go. -/
theorem clean_effect {t t' : Tree} {pre : Bytes} (hinv : TInv t) (he : t.clean pre = .ok t') :
    TInv t' ∧ liveL t'.root.children = (liveL t.root.children).filter (keepE pre) ∧
      ∃ root1, t' = ({ t with root := root1 }).recount := by
  have hstep : t.step (.clean pre) = t' := by simp [Tree.step, he]
  obtain ⟨root1, hclean, rfl⟩ := Tree.clean_ok he
  obtain ⟨top, hhs, hlive⟩ := clean_sh t.ic t.root hinv.sh pre root1 hclean
  obtain ⟨_, _, _, _, _, ha⟩ := clean_All_aux (Q := GQ t.hasTrace) t.root pre root1 hinv.gq hclean
  rw [hinv.rootPat, List.nil_append] at hlive
  refine ⟨⟨hstep ▸ inv2_step hinv.inv2 _, ?_, ?_, ?_⟩, ?_, root1, rfl⟩
  · simpa [Tree.recount, Node.setHandlers, Tree.hasTrace] using ha
  · exact All_setHandlers _ _ top.all
  · simp only [Tree.recount, Node.setHandlers, Node.pattern_mk]
    rw [top.pat]; exact hinv.rootPat
  · simpa [Tree.recount, Node.setHandlers] using hlive

/-- `Tree.applyMiddleware`: the invariant survives; the entries keep their patterns and keys. -/
theorem use_effect {t : Tree} (ms : List Nat) (hinv : TInv t) :
    TInv (t.applyMiddleware ms) ∧
      liveL (t.applyMiddleware ms).root.children = (liveL t.root.children).map (mwE t.name ms) := by
  obtain ⟨hall, hlive⟩ := applyMw_sh t.ic t.name ms t.root hinv.sh
  obtain ⟨_, hp, _, _, _, hc⟩ := applyMw_fields t.name ms t.root
  refine ⟨⟨inv2_step hinv.inv2 (.use ms), ?_, hall, ?_⟩, hlive⟩
  · show AllL (NodeOk (GQ (t.applyMiddleware ms).hasTrace)) (t.root.applyMw t.name ms).children
    rw [hasTrace_applyMiddleware, hc]
    exact applyMwL_All t.name ms (fun mi hs p => GQ_applyMw t.hasTrace t.name ms mi hs p) hinv.gq
  · show (t.root.applyMw t.name ms).pattern = []
    rw [hp]; exact hinv.rootPat

/-- Every operation of a history with well-formed registered patterns preserves the invariant. -/
theorem TInv_step {t : Tree} (hinv : TInv t) (op : TOp) (hw : op.wf = true) : TInv (t.step op) := by
  cases op with
  | add p h ms methods =>
    simp only [Tree.step]
    split
    · rename_i t' he; exact (add_effect hinv hw he).1
    · exact hinv
  | remove p methods =>
    simp only [Tree.step]
    split
    · rename_i t' he; exact (remove_effect hinv he).1
    · exact hinv
  | clean pre =>
    simp only [Tree.step]
    split
    · rename_i t' he; exact (clean_effect hinv he).1
    · exact hinv
  | use ms => exact (use_effect ms hinv).1

theorem TInv_run {t : Tree} (hinv : TInv t) (ops : List TOp) (hw : ∀ op ∈ ops, op.wf = true) :
    TInv (t.run ops) := by
  unfold Tree.run
  induction ops generalizing t with
  | nil => exact hinv
  | cons op ops ih =>
    exact ih (TInv_step hinv op (hw op (by simp))) (fun o ho => hw o (by simp [ho]))

end Mux.P11
