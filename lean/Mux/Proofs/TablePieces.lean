/-
  Mux.Proofs.TablePieces — the kind of a segment is a function of the key of its text; the pieces of
  a well-formed accepted pattern are well-formed texts, and only the last piece may end with `}`.
-/
import Mux.Proofs.TableLp
import Mux.Spec.Table
namespace Mux.P11
open Mux

/-! ## `indexByte` on concatenations -/

theorem indexByte_append (b : UInt8) (x y : Bytes) :
    indexByte b (x ++ y) = match indexByte b x with
      | some i => some i
      | none => (indexByte b y).map (· + x.length) := by
  induction x with
  | nil => simp [indexByte]
  | cons c x ih =>
    simp only [List.cons_append, indexByte]
    split
    · rfl
    · rw [ih]
      cases indexByte b x with
      | some i => rfl
      | none =>
        cases indexByte b y with
        | none => rfl
        | some k =>
          simp only [Option.map_some, Option.map_none, List.length_cons, Nat.add_assoc]

/-- The kind of `{inner}…`. -/
def kindOfInner (ic : Interceptors) (ia : Bytes) : Kind :=
  match indexByte separatorByte ia with
  | none => .named
  | some j => if j + 1 = ia.length then .named
    else if (ic.find (ia.drop (j + 1))).isSome then .icpt else .rx

theorem newSegment_plain_kind (ic : Interceptors) {a : Bytes} {s : Seg} (ha : Plain a)
    (h : newSegment ic a = .ok s) : s.kind = .str := by
  rw [newSegment_closed] at h
  split at h
  · cases h
  · rw [indexByte_eq_none_iff.2 ha.1] at h
    simp only [Except.ok.injEq] at h
    subst h; rfl

theorem finishRuled_kind (ic : Interceptors) (v : Bytes) (st en sp : Nat) (s : Seg)
    (h : finishRuled ic v st en sp = .ok s) :
    s.kind = if (ic.find ((v.take en).drop (sp + 1))).isSome then .icpt else .rx := by
  unfold finishRuled at h
  simp only at h
  split at h
  · rename_i hf
    simp only [Except.ok.injEq] at h
    subst h; simp [hf]
  · rename_i hf
    split at h
    · cases h
    · split at h
      · cases h
      · simp only [Except.ok.injEq] at h
        subst h; simp [hf]

theorem newSegment_param_kind (ic : Interceptors) {ia sa : Bytes} {s : Seg} (hia : Plain ia)
    (h : newSegment ic (startByte :: (ia ++ endByte :: sa)) = .ok s) : s.kind = kindOfInner ic ia := by
  rw [newSegment_closed] at h
  split at h
  · cases h
  have hst : indexByte startByte (startByte :: (ia ++ endByte :: sa)) = some 0 := by simp [indexByte]
  have hen : indexByte endByte (startByte :: (ia ++ endByte :: sa)) = some (ia.length + 1) := by
    have : ¬ startByte = endByte := startByte_ne_endByte
    simp only [indexByte, this, if_false]
    rw [indexByte_append, indexByte_eq_none_iff.2 hia.2]
    simp [indexByte]
  have hsp : indexByte separatorByte (startByte :: (ia ++ endByte :: sa)) =
      match indexByte separatorByte ia with
      | some j => some (j + 1)
      | none => (indexByte separatorByte sa).map (· + (ia.length + 2)) := by
    have h1 : ¬ startByte = separatorByte := by decide
    have h2 : ¬ endByte = separatorByte := by decide
    simp only [indexByte, h1, if_false]
    rw [indexByte_append]
    cases indexByte separatorByte ia with
    | some j => simp
    | none =>
      simp only [indexByte, h2, if_false]
      cases indexByte separatorByte sa with
      | none => rfl
      | some k => simp only [Option.map_some, Option.some.injEq]; omega
  rw [hst, hen, hsp] at h
  unfold kindOfInner
  cases hj : indexByte separatorByte ia with
  | none =>
    simp only [hj] at h
    cases hk : indexByte separatorByte sa with
    | none =>
      simp only [hk, Option.map_none] at h
      split at h
      · cases h
      · simp only [Except.ok.injEq] at h; subst h; rfl
    | some k =>
      simp only [hk, Option.map_some] at h
      split at h
      · cases h
      · split at h
        · simp only [Except.ok.injEq] at h; subst h; rfl
        · split at h
          · simp only [Except.ok.injEq] at h; subst h; rfl
          · omega
  | some j =>
    have hjl := indexByte_some_lt hj
    simp only [hj] at h
    split at h
    · cases h
    · split at h
      · rename_i h1
        simp only [Except.ok.injEq] at h; subst h
        have : j + 1 = ia.length := by omega
        simp [this, mkNamed]
      · rename_i h1
        have hne : ¬ j + 1 = ia.length := by omega
        simp only [hne, if_false]
        split at h
        · omega
        · split at h
          · cases h
          · have hk := finishRuled_kind ic _ _ _ _ s h
            rw [hk]
            have : List.drop (j + 1 + 1) (List.take (ia.length + 1) (startByte :: (ia ++ endByte :: sa))) =
                List.drop (j + 1) ia := by
              simp
            rw [this]

/-- Texts with the same key get segments of the same kind. -/
theorem kind_of_vkey (ic : Interceptors) {a b : Bytes} {sa sb : Seg} (ha : WfVal a) (hb : WfVal b)
    (h1 : newSegment ic a = .ok sa) (h2 : newSegment ic b = .ok sb) (hk : vkey a = vkey b) :
    sa.kind = sb.kind := by
  rcases ha with ⟨hane, hap⟩ | ⟨ia, ta, rfl, hia, hta⟩
  · rw [newSegment_plain_kind ic hap h1]
    rcases hb with ⟨hbne, hbp⟩ | ⟨ib, tb, rfl, hib, htb⟩
    · rw [newSegment_plain_kind ic hbp h2]
    · exfalso
      cases a with
      | nil => exact hane rfl
      | cons c r =>
        rw [vkey_plain hap, vkey_param _ _ hib] at hk
        simp only [List.cons.injEq] at hk
        exact hap.cons.1 hk.1
  · rcases hb with ⟨hbne, hbp⟩ | ⟨ib, tb, rfl, hib, htb⟩
    · exfalso
      cases b with
      | nil => exact hbne rfl
      | cons c r =>
        rw [vkey_plain hbp, vkey_param _ _ hia] at hk
        simp only [List.cons.injEq] at hk
        exact hbp.cons.1 hk.1.symm
    · rw [newSegment_param_kind ic hia h1, newSegment_param_kind ic hib h2]
      rw [vkey_param _ _ hia, vkey_param _ _ hib] at hk
      simp only [List.cons.injEq, true_and] at hk
      rw [(append_end_inj hia.2 hib.2 hk).1]

/-! ## Pieces of a well-formed pattern -/

/-- Accumulator of `splitAux` outside a token. -/
def OkOut (cur : Bytes) : Prop := cur = [] ∨ WfVal cur
/-- Accumulator of `splitAux` inside a token. -/
def OkIn (cur : Bytes) : Prop := ∃ ia, cur = startByte :: ia ∧ Plain ia

theorem OkOut.snoc {cur : Bytes} {b : UInt8} (h : OkOut cur) (h1 : b ≠ startByte) (h2 : b ≠ endByte) :
    OkOut (cur ++ [b]) := by
  have hb : Plain [b] := Plain.of_cons h1 h2 Plain.nil
  right
  rcases h with rfl | ⟨_, hp⟩ | ⟨ia, sa, rfl, hia, hsa⟩
  · exact .inl ⟨by simp, hb⟩
  · exact .inl ⟨by simp, hp.append hb⟩
  · exact .inr ⟨ia, sa ++ [b], by simp, hia, hsa.append hb⟩

theorem splitAux_wf (st : Bool) (cur rest : Bytes)
    (h1 : st = false → OkOut cur) (h2 : st = true → OkIn cur) (hw : wfBraces st rest = true) :
    ∀ p ∈ splitAux st cur rest, p = [] ∨ WfVal p := by
  induction rest generalizing st cur with
  | nil =>
    cases st with
    | false => simpa [splitAux, OkOut] using h1 rfl
    | true => simp [wfBraces] at hw
  | cons b rest ih =>
    cases st with
    | false =>
      have ho := h1 rfl
      simp only [wfBraces] at hw
      simp only [splitAux]
      by_cases hb : b = startByte
      · simp only [hb, if_true] at hw ⊢
        have hin : OkIn [startByte] := ⟨[], rfl, Plain.nil⟩
        split
        · exact ih true _ (fun h => by cases h) (fun _ => hin) hw
        · intro p hp
          rcases List.mem_cons.1 hp with rfl | hp
          · exact ho
          · exact ih true _ (fun h => by cases h) (fun _ => hin) hw p hp
      · simp only [hb, if_false] at hw ⊢
        by_cases he : b = endByte
        · simp [he] at hw
        · simp only [he, if_false] at hw
          exact ih false _ (fun _ => ho.snoc hb he) (fun h => by cases h) hw
    | true =>
      obtain ⟨ia, rfl, hia⟩ := h2 rfl
      simp only [wfBraces] at hw
      simp only [splitAux]
      by_cases he : b = endByte
      · simp only [he, if_true] at hw ⊢
        refine ih false _ (fun _ => .inr (.inr ⟨ia, [], by simp, hia, Plain.nil⟩)) (fun h => by cases h) hw
      · simp only [he, if_false] at hw ⊢
        by_cases hb : b = startByte
        · simp [hb] at hw
        · simp only [hb, if_false] at hw
          refine ih true _ (fun h => by cases h) (fun _ => ⟨ia ++ [b], by simp, ?_⟩) hw
          exact hia.append (Plain.of_cons hb he Plain.nil)

/-- The first piece extends the accumulator; every later piece begins with `{`. -/
theorem splitAux_shape (st : Bool) (cur rest : Bytes) :
    ∃ first tail, splitAux st cur rest = first :: tail ∧ (cur = [] ∨ cur <+: first) ∧
      ∀ p ∈ tail, p.head? = some startByte := by
  induction rest generalizing st cur with
  | nil => exact ⟨cur, [], by simp [splitAux], .inr (List.prefix_refl _), by simp⟩
  | cons b rest ih =>
    cases st with
    | false =>
      simp only [splitAux]
      by_cases hb : b = startByte
      · simp only [hb, if_true]
        obtain ⟨f, tl, e, hp, ht⟩ := ih true [startByte]
        split
        · rename_i hc
          exact ⟨f, tl, e, .inl hc, ht⟩
        · refine ⟨cur, f :: tl, by rw [e], .inr (List.prefix_refl _), ?_⟩
          intro p hp'
          rcases List.mem_cons.1 hp' with rfl | hp'
          · rcases hp with hp | hp
            · cases hp
            · obtain ⟨t, rfl⟩ := hp; simp
          · exact ht p hp'
      · simp only [hb, if_false]
        obtain ⟨f, tl, e, hp, ht⟩ := ih false (cur ++ [b])
        refine ⟨f, tl, e, .inr ?_, ht⟩
        rcases hp with hp | hp
        · simp at hp
        · exact (List.prefix_append cur [b]).trans hp
    | true =>
      simp only [splitAux]
      split
      · obtain ⟨f, tl, e, hp, ht⟩ := ih false (cur ++ [b])
        refine ⟨f, tl, e, .inr ?_, ht⟩
        rcases hp with hp | hp
        · simp at hp
        · exact (List.prefix_append cur [b]).trans hp
      · obtain ⟨f, tl, e, hp, ht⟩ := ih true (cur ++ [b])
        refine ⟨f, tl, e, .inr ?_, ht⟩
        rcases hp with hp | hp
        · simp at hp
        · exact (List.prefix_append cur [b]).trans hp

/-- What `getNode` is called with: well-formed texts, and only the last one may end with `}`. -/
def PiecesOk : Bytes → List Bytes → Prop
  | v, [] => WfVal v
  | v, v' :: rest => WfVal v ∧ ¬ Closed v ∧ PiecesOk v' rest

theorem PiecesOk.wf {v : Bytes} {rest : List Bytes} (h : PiecesOk v rest) : WfVal v := by
  cases rest with
  | nil => exact h
  | cons _ _ => exact h.1

theorem PiecesOk.replace {v w : Bytes} {rest : List Bytes} (h : PiecesOk v rest) (hw : WfVal w)
    (hc : ¬ Closed w) : PiecesOk w rest := by
  cases rest with
  | nil => exact hw
  | cons _ _ => exact ⟨hw, hc, h.2.2⟩

theorem lastByte_closed {v : Bytes} (h : v ≠ []) : lastByte v = endByte ↔ Closed v := by
  unfold lastByte Closed
  rw [List.getLast?_eq_getElem?]
  cases hv : v[v.length - 1]? with
  | none =>
    rw [List.getElem?_eq_none_iff] at hv
    have : 0 < v.length := List.length_pos_iff.2 h
    omega
  | some x => simp

theorem splitLoop_pieces (ic : Interceptors) :
    ∀ (ps : List Bytes) (flag : Bool) (names : List Bytes) (segs : List Seg),
      splitLoop ic ps flag names = .ok segs → (∀ p ∈ ps, WfVal p) →
      (∀ p ∈ ps.tail, p.head? = some startByte) →
      match ps with
      | [] => True
      | v :: rest => PiecesOk v rest := by
  intro ps
  induction ps with
  | nil => intros; trivial
  | cons v rest ih =>
    intro flag names segs h hwf hhead
    have hv : WfVal v := hwf v (by simp)
    have hvne := hv.ne_nil
    simp only [splitLoop, bind, Except.bind, atE_zero 110 v hvne, atE_last 111 v hvne] at h
    split at h
    · simp [throw, throwThe, MonadExceptOf.throw] at h
    split at h
    · cases h
    rename_i seg hseg
    split at h
    · simp [throw, throwThe, MonadExceptOf.throw] at h
    split at h
    · cases h
    rename_i r hr
    cases rest with
    | nil => exact hv
    | cons v' rest' =>
      have hrec := ih _ _ _ hr (fun p hp => hwf p (by simp [hp])) (fun p hp => hhead p (by simp at hp ⊢; exact .inr hp))
      refine ⟨hv, ?_, hrec⟩
      intro hc
      have hl : lastByte v = endByte := (lastByte_closed hvne).2 hc
      have hh : v'.head? = some startByte := hhead v' (by simp)
      have hv'ne : v' ≠ [] := by intro e; simp [e] at hh
      simp only [splitLoop, bind, Except.bind, atE_zero 110 v' hv'ne] at hr
      simp [hl, hh, throw, throwThe, MonadExceptOf.throw] at hr

/-- The segment texts of an accepted well-formed pattern. -/
theorem split_pieces (ic : Interceptors) {p v : Bytes} {rest : List Bytes} {segs : List Seg}
    (hw : WfPattern p = true) (hs : split ic p = .ok segs) (hsp : splitString p = v :: rest) :
    PiecesOk v rest := by
  have hpne : p ≠ [] := by
    intro e; subst e; simp [split] at hs
  simp only [split, if_neg hpne] at hs
  have hwf : ∀ q ∈ splitString p, WfVal q := by
    intro q hq
    rcases splitAux_wf false [] p (fun _ => .inl rfl) (fun h => by cases h) hw q hq with h | h
    · exact absurd h (splitString_pieces_nonempty p hpne q hq)
    · exact h
  obtain ⟨f, tl, e, _, ht⟩ := splitAux_shape false [] p
  have hhead : ∀ q ∈ (splitString p).tail, q.head? = some startByte := by
    unfold splitString; rw [e]; exact ht
  have := splitLoop_pieces ic (splitString p) false [] segs hs hwf hhead
  rw [hsp] at this
  exact this

end Mux.P11
