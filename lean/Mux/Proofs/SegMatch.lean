/-
  Mux.Proofs.SegMatch — `Segment.Match`: soundness (C01 step 1) and the "first position, shortest
  capture" characterisation of the search loop (C02, B2).
-/
import Mux.Proofs.Regex
namespace Mux

/-! ## `scanSuffix`: the first qualifying position -/

/-- Position `i` of `path` qualifies: the suffix occurs there and the constraint accepts the text
before it (`acc` is what was consumed before `path`). -/
def Qualifies (ok : Bytes → Bool) (suf acc path : Bytes) (i : Nat) : Prop :=
  suf <+: path.drop i ∧ ok (acc ++ path.take i) = true

instance (ok : Bytes → Bool) (suf acc path : Bytes) (i : Nat) : Decidable (Qualifies ok suf acc path i) := by
  unfold Qualifies; infer_instance

private theorem qualifies_zero (ok : Bytes → Bool) (suf acc path : Bytes) :
    Qualifies ok suf acc path 0 ↔ (suf.isPrefixOf path = true ∧ ok acc = true) := by
  simp [Qualifies, List.isPrefixOf_iff_prefix]

private theorem qualifies_succ (ok : Bytes → Bool) (suf acc : Bytes) (b : UInt8) (path : Bytes) (i : Nat) :
    Qualifies ok suf acc (b :: path) (i + 1) ↔ Qualifies ok suf (acc ++ [b]) path i := by
  simp [Qualifies]

/-- `scanSuffix` returns `(cap, rest)` iff `cap = acc ++ pre` where `pre` ends at the FIRST
qualifying position of `path` (every byte position `0, 1, 2, …` is considered, left to right). -/
theorem scanSuffix_eq_some_iff (ok : Bytes → Bool) (suf acc path cap rest : Bytes) :
    scanSuffix ok suf acc path = some (cap, rest) ↔
      ∃ pre, cap = acc ++ pre ∧ path = pre ++ suf ++ rest ∧ ok cap = true ∧
        ∀ i, i < pre.length → ¬ Qualifies ok suf acc path i := by
  induction path generalizing acc with
  | nil =>
    simp only [scanSuffix]
    constructor
    · intro h
      split at h
      · rename_i hc
        simp only [Option.some.injEq, Prod.mk.injEq] at h
        obtain ⟨rfl, rfl⟩ := h
        have : suf = [] := by simpa using hc.1
        subst this
        exact ⟨[], by simp, by simp, hc.2, by simp⟩
      · cases h
    · rintro ⟨pre, hcap, hp, hok, _⟩
      have h1 : pre = [] ∧ suf = [] ∧ rest = [] := by
        have := congrArg List.length hp
        simp only [List.length_nil, List.length_append] at this
        refine ⟨List.eq_nil_of_length_eq_zero (by omega), List.eq_nil_of_length_eq_zero (by omega),
          List.eq_nil_of_length_eq_zero (by omega)⟩
      obtain ⟨rfl, rfl, rfl⟩ := h1
      simp only [List.append_nil] at hcap
      subst hcap
      simp [hok]
  | cons b path ih =>
    simp only [scanSuffix]
    by_cases hq : suf.isPrefixOf (b :: path) = true ∧ ok acc = true
    · rw [if_pos hq]
      constructor
      · intro h
        simp only [Option.some.injEq, Prod.mk.injEq] at h
        obtain ⟨rfl, rfl⟩ := h
        refine ⟨[], by simp, ?_, hq.2, by simp⟩
        simpa using isPrefixOf_eq_append hq.1
      · rintro ⟨pre, hcap, hp, hok, hmin⟩
        have hpre : pre = [] := by
          cases pre with
          | nil => rfl
          | cons c pre' =>
            exact absurd ((qualifies_zero ok suf acc (b :: path)).2 hq) (hmin 0 (by simp))
        subst hpre
        simp only [List.append_nil] at hcap
        subst hcap
        simp only [List.nil_append] at hp
        rw [hp]
        simp
    · rw [if_neg hq, ih]
      constructor
      · rintro ⟨pre, hcap, hp, hok, hmin⟩
        refine ⟨b :: pre, by simp [hcap], by simp [hp], hok, ?_⟩
        intro i hi
        cases i with
        | zero => rw [qualifies_zero]; exact hq
        | succ j =>
          rw [qualifies_succ]
          exact hmin j (by simpa using hi)
      · rintro ⟨pre, hcap, hp, hok, hmin⟩
        cases pre with
        | nil =>
          exfalso
          apply hq
          simp only [List.append_nil] at hcap
          subst hcap
          simp only [List.nil_append] at hp
          refine ⟨?_, hok⟩
          rw [hp]; simp
        | cons c pre' =>
          simp only [List.cons_append, List.cons.injEq] at hp
          obtain ⟨rfl, hp⟩ := hp
          refine ⟨pre', by simp [hcap], hp, hok, ?_⟩
          intro i hi
          rw [← qualifies_succ]
          exact hmin (i + 1) (by simpa using hi)

/-- `scanSuffix` fails iff no position qualifies. -/
theorem scanSuffix_eq_none_iff (ok : Bytes → Bool) (suf acc path : Bytes) :
    scanSuffix ok suf acc path = none ↔ ∀ i, i ≤ path.length → ¬ Qualifies ok suf acc path i := by
  induction path generalizing acc with
  | nil =>
    simp only [scanSuffix, List.length_nil, Nat.le_zero]
    constructor
    · intro h i hi
      subst hi
      rw [qualifies_zero]
      intro hc
      rw [if_pos hc] at h
      cases h
    · intro h
      rw [if_neg]
      rw [← qualifies_zero]
      exact h 0 rfl
  | cons b path ih =>
    simp only [scanSuffix]
    by_cases hq : suf.isPrefixOf (b :: path) = true ∧ ok acc = true
    · rw [if_pos hq]
      constructor
      · intro h; cases h
      · intro h
        exact absurd ((qualifies_zero ok suf acc (b :: path)).2 hq) (h 0 (by simp))
    · rw [if_neg hq, ih]
      constructor
      · intro h i hi
        cases i with
        | zero => rw [qualifies_zero]; exact hq
        | succ j => rw [qualifies_succ]; exact h j (by simpa using hi)
      · intro h i hi
        rw [← qualifies_succ]
        exact h (i + 1) (by simpa using hi)

/-- The form requested for C02 (B2), with proper prefixes of the consumed text. -/
theorem scanSuffix_first (ok : Bytes → Bool) (suf acc path cap rest : Bytes)
    (h : scanSuffix ok suf acc path = some (cap, rest)) :
    ∃ pre, cap = acc ++ pre ∧ path = pre ++ suf ++ rest ∧ ok cap = true ∧
      ∀ pre', pre' <+: pre → pre' ≠ pre →
        ¬ (suf <+: path.drop pre'.length ∧ ok (acc ++ pre') = true) := by
  obtain ⟨pre, hcap, hp, hok, hmin⟩ := (scanSuffix_eq_some_iff ok suf acc path cap rest).1 h
  refine ⟨pre, hcap, hp, hok, ?_⟩
  rintro pre' ⟨t, rfl⟩ hne
  have hlt : pre'.length < (pre' ++ t).length := by
    cases t with
    | nil => simp at hne
    | cons c t => simp
  have := hmin pre'.length hlt
  unfold Qualifies at this
  rw [hp] at this ⊢
  simpa [List.append_assoc, List.take_left'] using this

/-- Converse: the first qualifying position determines the result. -/
theorem scanSuffix_of_first (ok : Bytes → Bool) (suf acc pre rest : Bytes)
    (hok : ok (acc ++ pre) = true)
    (hmin : ∀ pre', pre' <+: pre → pre' ≠ pre →
        ¬ (suf <+: (pre ++ suf ++ rest).drop pre'.length ∧ ok (acc ++ pre') = true)) :
    scanSuffix ok suf acc (pre ++ suf ++ rest) = some (acc ++ pre, rest) := by
  rw [scanSuffix_eq_some_iff]
  refine ⟨pre, rfl, rfl, hok, ?_⟩
  intro i hi hq
  refine hmin (pre.take i) (List.take_prefix i pre) ?_ ?_
  · intro he
    have := congrArg List.length he
    simp at this
    omega
  · unfold Qualifies at hq
    have hl : (pre.take i).length = i := by simp; omega
    rw [hl]
    refine ⟨hq.1, ?_⟩
    have : (pre ++ suf ++ rest).take i = pre.take i := by
      rw [List.append_assoc, List.take_append_of_le_length (by omega)]
    rw [← this]; exact hq.2

theorem scanSuffix_isSome_iff (ok : Bytes → Bool) (suf acc path : Bytes) :
    (scanSuffix ok suf acc path).isSome ↔ ∃ i, i ≤ path.length ∧ Qualifies ok suf acc path i := by
  rw [← Option.ne_none_iff_isSome, Ne, scanSuffix_eq_none_iff]
  constructor
  · intro h
    exact Classical.byContradiction fun hn => h fun i hi hq => hn ⟨i, hi, hq⟩
  · rintro ⟨i, hi, hq⟩ h
    exact h i hi hq

/-! ## `Seg.match` -/

theorem Seg.match_sound (env : Env) (ic : Interceptors) (s : Seg) (path cap rest : Bytes)
    (h : s.match env ic path = .yes cap rest) :
    path = s.inst cap ++ rest ∧ s.Satisfies env ic cap ∧ (s.kind = .str → cap = []) := by
  unfold Seg.match at h
  unfold Seg.inst Seg.Satisfies
  split at h
  · -- str
    rename_i hk
    split at h
    · rename_i hp
      simp only [MatchRes.yes.injEq] at h
      obtain ⟨rfl, rfl⟩ := h
      simp only [hk]
      exact ⟨isPrefixOf_eq_append hp, by simp⟩
    · cases h
  · -- icpt
    rename_i hk
    simp only [hk]
    split at h
    · rename_i he
      split at h
      · rename_i ha
        simp only [MatchRes.yes.injEq] at h
        obtain ⟨rfl, rfl⟩ := h
        simp [he, ha]
      · cases h
    · rename_i he
      split at h
      · rename_i c r hs
        simp only [MatchRes.yes.injEq] at h
        obtain ⟨rfl, rfl⟩ := h
        obtain ⟨pre, hcap, hp, hok, _⟩ := (scanSuffix_eq_some_iff _ _ _ _ _ _).1 hs
        simp only [List.nil_append] at hcap
        subst hcap
        simp [he, hp, hok]
      · cases h
  · -- named
    rename_i hk
    simp only [hk]
    split at h
    · rename_i he
      split at h
      · simp only [MatchRes.yes.injEq] at h
        obtain ⟨rfl, rfl⟩ := h
        simp [he]
      · cases h
    · rename_i he
      split at h
      · rename_i c r hs
        simp only [MatchRes.yes.injEq] at h
        obtain ⟨rfl, rfl⟩ := h
        obtain ⟨pre, hcap, hp, hok, _⟩ := (scanSuffix_eq_some_iff _ _ _ _ _ _).1 hs
        simp only [List.nil_append] at hcap
        subst hcap
        simp [he, hp]
      · cases h
  · -- rx
    rename_i hk
    simp only [hk]
    split at h
    · cases h
    · split at h
      · rename_i c r hs
        simp only [MatchRes.yes.injEq] at h
        obtain ⟨rfl, rfl⟩ := h
        obtain ⟨hp, hd⟩ := rxMatch_sound _ _ _ _ _ hs
        exact ⟨hp, hd, by simp⟩
      · cases h

/-- `Segment.Match` is a function of the segment and the path (trivially: it is a `def`); stated
in the relational form used by the tree proofs. -/
theorem Seg.match_deterministic (env : Env) (ic : Interceptors) (s : Seg) (path c1 r1 c2 r2 : Bytes)
    (h1 : s.match env ic path = .yes c1 r1) (h2 : s.match env ic path = .yes c2 r2) :
    c1 = c2 ∧ r1 = r2 := by
  rw [h1] at h2
  simpa using h2

/-- The capture and the rest are parts of the path: the rest is a suffix of the path. -/
theorem Seg.match_rest_suffix (env : Env) (ic : Interceptors) (s : Seg) (path cap rest : Bytes)
    (h : s.match env ic path = .yes cap rest) : rest <:+ path := by
  obtain ⟨hp, _, _⟩ := Seg.match_sound env ic s path cap rest h
  exact ⟨s.inst cap, hp.symm⟩

theorem Seg.match_rest_length_le (env : Env) (ic : Interceptors) (s : Seg) (path cap rest : Bytes)
    (h : s.match env ic path = .yes cap rest) : rest.length ≤ path.length :=
  (Seg.match_rest_suffix env ic s path cap rest h).length_le

/-- A literal segment matches exactly the paths it prefixes. -/
theorem Seg.match_str (env : Env) (ic : Interceptors) (s : Seg) (path : Bytes) (hk : s.kind = .str) :
    s.match env ic path = if s.value <+: path then .yes [] (path.drop s.value.length) else .no := by
  simp only [Seg.match, hk, hasPrefix, List.isPrefixOf_iff_prefix]

/-- Endpoint (pattern-final) named/interceptor segments take the whole remaining path. -/
theorem Seg.match_endpoint (env : Env) (ic : Interceptors) (s : Seg) (path cap rest : Bytes)
    (hk : s.kind = .icpt ∨ s.kind = .named) (he : s.endpoint = true)
    (h : s.match env ic path = .yes cap rest) : cap = path ∧ rest = [] := by
  rcases hk with hk | hk <;>
  · simp only [Seg.match, hk, he, if_true] at h
    split at h
    · simp only [MatchRes.yes.injEq] at h
      exact ⟨h.1.symm, h.2.symm⟩
    · cases h

theorem Seg.match_endpoint_eq (env : Env) (ic : Interceptors) (s : Seg) (path : Bytes)
    (hk : s.kind = .icpt ∨ s.kind = .named) (he : s.endpoint = true) :
    s.match env ic path = if s.accepts env ic path then .yes path [] else .no := by
  rcases hk with hk | hk <;> simp only [Seg.match, hk, he, if_true]

/-- Never `unsupported` outside regexp segments. -/
theorem Seg.match_ne_unsupported (env : Env) (ic : Interceptors) (s : Seg) (path : Bytes)
    (hk : s.kind ≠ .rx) : s.match env ic path ≠ .unsupported := by
  unfold Seg.match
  split
  · split <;> simp
  · split
    · split <;> simp
    · split <;> simp
  · split
    · split <;> simp
    · split <;> simp
  · contradiction

/-- C02 (B2) for named / interceptor segments with a suffix: the capture ends at the FIRST position
of the path where the suffix occurs and the constraint accepts the text before it. -/
theorem Seg.match_scan_yes_iff (env : Env) (ic : Interceptors) (s : Seg) (path cap rest : Bytes)
    (hk : s.kind = .icpt ∨ s.kind = .named) (he : s.endpoint = false) :
    s.match env ic path = .yes cap rest ↔
      path = cap ++ s.suffix ++ rest ∧ s.accepts env ic cap = true ∧
        ∀ i, i < cap.length →
          ¬ (s.suffix <+: path.drop i ∧ s.accepts env ic (path.take i) = true) := by
  have hm : s.match env ic path = match scanSuffix (s.accepts env ic) s.suffix [] path with
      | some (cap, rest) => .yes cap rest
      | none => .no := by
    rcases hk with hk | hk <;> simp only [Seg.match, hk, he] <;> rfl
  rw [hm]
  constructor
  · intro h
    split at h
    · rename_i c r hs
      simp only [MatchRes.yes.injEq] at h
      obtain ⟨rfl, rfl⟩ := h
      obtain ⟨pre, hcap, hp, hok, hmin⟩ := (scanSuffix_eq_some_iff _ _ _ _ _ _).1 hs
      simp only [List.nil_append] at hcap
      subst hcap
      exact ⟨hp, hok, by simpa [Qualifies] using hmin⟩
    · cases h
  · rintro ⟨hp, hok, hmin⟩
    have : scanSuffix (s.accepts env ic) s.suffix [] path = some (cap, rest) :=
      (scanSuffix_eq_some_iff _ _ _ _ _ _).2 ⟨cap, by simp, hp, hok, by simpa [Qualifies] using hmin⟩
    rw [this]

theorem Seg.match_scan_no_iff (env : Env) (ic : Interceptors) (s : Seg) (path : Bytes)
    (hk : s.kind = .icpt ∨ s.kind = .named) (he : s.endpoint = false) :
    s.match env ic path = .no ↔
      ∀ i, i ≤ path.length →
        ¬ (s.suffix <+: path.drop i ∧ s.accepts env ic (path.take i) = true) := by
  have hm : s.match env ic path = match scanSuffix (s.accepts env ic) s.suffix [] path with
      | some (cap, rest) => .yes cap rest
      | none => .no := by
    rcases hk with hk | hk <;> simp only [Seg.match, hk, he] <;> rfl
  rw [hm]
  have := scanSuffix_eq_none_iff (s.accepts env ic) s.suffix [] path
  simp only [Qualifies, List.nil_append] at this
  rw [← this]
  split
  · rename_i hs; simp [hs]
  · rename_i hs; simp [hs]

/-- No widening: a named segment (which accepts everything) captures up to the FIRST occurrence of
its suffix. -/
theorem Seg.match_named_first_occurrence (env : Env) (ic : Interceptors) (s : Seg) (path cap rest : Bytes)
    (hk : s.kind = .named) (he : s.endpoint = false)
    (h : s.match env ic path = .yes cap rest) :
    path = cap ++ s.suffix ++ rest ∧ ∀ i, i < cap.length → ¬ s.suffix <+: path.drop i := by
  obtain ⟨hp, _, hmin⟩ := (Seg.match_scan_yes_iff env ic s path cap rest (.inr hk) he).1 h
  refine ⟨hp, fun i hi hpre => hmin i hi ⟨hpre, ?_⟩⟩
  simp [Seg.accepts, hk]

/-- Regexp segments (inside the modelled domain): failure means no denoted prefix is followed by the
suffix; success gives a denoted capture (by `Seg.match_sound`). -/
theorem Seg.match_rx_no_iff (env : Env) (ic : Interceptors) (s : Seg) (path : Bytes)
    (hk : s.kind = .rx) (hdom : ¬ ((s.re.wide = true ∧ ¬ isAscii path = true) ∨ ¬ isAscii s.suffix = true)) :
    s.match env ic path = .no ↔
      ∀ v rest, path = v ++ s.suffix ++ rest → ¬ Re.Denotes s.re v := by
  simp only [Seg.match, hk]
  rw [if_neg hdom, ← rxMatch_eq_none_iff]
  split
  · rename_i hs; simp [hs]
  · rename_i hs; simp [hs]

/-- Completeness of a single segment: any instantiation that satisfies the constraint is matched
by *some* capture (not necessarily the same one — the first in search order). -/
theorem Seg.match_complete (env : Env) (ic : Interceptors) (s : Seg) (v rest : Bytes)
    (hsat : s.Satisfies env ic v)
    (hend : s.endpoint = true → rest = [])
    (hsup : s.match env ic (s.inst v ++ rest) ≠ .unsupported) :
    ∃ cap rest', s.match env ic (s.inst v ++ rest) = .yes cap rest' := by
  cases hk : s.kind with
  | str =>
    refine ⟨[], rest, ?_⟩
    simp [Seg.match_str env ic s _ hk, Seg.inst, hk]
  | rx =>
    simp only [Seg.Satisfies, hk] at hsat
    simp only [Seg.match, hk] at hsup ⊢
    split
    · rename_i hc; rw [if_pos hc] at hsup; exact absurd rfl hsup
    · have := rxMatch_complete s.re s.suffix v rest hsat
      simp only [Seg.inst, hk]
      cases hm : rxMatch s.re s.suffix (v ++ s.suffix ++ rest) with
      | none => rw [hm] at this; cases this
      | some x => exact ⟨x.1, x.2, rfl⟩
  | icpt =>
    simp only [Seg.Satisfies, hk] at hsat
    cases he : s.endpoint with
    | true =>
      have := hend he; subst this
      refine ⟨v, [], ?_⟩
      simp [Seg.match_endpoint_eq env ic s _ (.inl hk) he, Seg.inst, hk, he, hsat]
    | false =>
      cases hm : s.match env ic (s.inst v ++ rest) with
      | yes c r => exact ⟨c, r, rfl⟩
      | unsupported => exact absurd hm hsup
      | no =>
        exfalso
        rw [Seg.match_scan_no_iff env ic s _ (.inl hk) he] at hm
        simp only [Seg.inst, hk, he] at hm
        apply hm v.length (by simp)
        simp [hsat, List.append_assoc]
  | named =>
    cases he : s.endpoint with
    | true =>
      have := hend he; subst this
      refine ⟨v, [], ?_⟩
      simp [Seg.match_endpoint_eq env ic s _ (.inr hk) he, Seg.inst, hk, he, Seg.accepts]
    | false =>
      cases hm : s.match env ic (s.inst v ++ rest) with
      | yes c r => exact ⟨c, r, rfl⟩
      | unsupported => exact absurd hm hsup
      | no =>
        exfalso
        rw [Seg.match_scan_no_iff env ic s _ (.inr hk) he] at hm
        simp only [Seg.inst, hk, he] at hm
        apply hm v.length (by simp)
        simp [Seg.accepts, hk, List.append_assoc]

/-! ## Non-vacuity -/

section Examples
private def envD : Env := ⟨fun _ p => matchDigit p⟩
private def icD : Interceptors := [([100], 0)]    -- rule "d" ↦ digits
/-- `{id:d}/` -/
private def segId : Seg :=
  { value := [123, 105, 100, 58, 100, 125, 47], kind := .icpt, name := [105, 100], rule := [100], suffix := [47] }
-- `12/x` : capture `12`, rest `x`
example : segId.match envD icD [49, 50, 47, 120] = .yes [49, 50] [120] := by rfl
-- D19 shape: `a/1/x` – the first `/` is rejected (capture `a` is not digits), resumes one byte further; no match
example : segId.match envD icD [97, 47, 49, 47, 120] = .no := by rfl
/-- `{n}-` named with suffix `-` on `a-b-c`: shortest capture `a`. -/
private def segN : Seg := { value := [123, 110, 125, 45], kind := .named, name := [110], suffix := [45] }
example : segN.match envD icD [97, 45, 98, 45, 99] = .yes [97] [98, 45, 99] := by rfl
example : scanSuffix (fun p => matchDigit p) [47] [] [97, 47, 49, 47] = none := by decide
example : scanSuffix (fun _ => true) [47] [] [97, 47, 49, 47] = some ([97], [49, 47]) := by decide
end Examples

end Mux
