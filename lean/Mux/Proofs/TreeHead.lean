/-
  Mux.Proofs.TreeHead — node-level facts for C08/C18: removing OPTIONS/HEAD/"" by hand is a no-op,
  and `Tree.add` refuses reserved and unknown methods.
-/
import Mux.Proofs.TreeViews
namespace Mux

theorem foldl_rmStep_noop (methods : List Bytes)
    (hm : ∀ m ∈ methods, m = mOPTIONS ∨ m = mHEAD ∨ m = mNotAllowed) (hs : AMap Handler) :
    methods.foldl rmStep hs = hs := by
  induction methods with
  | nil => rfl
  | cons m rest ih =>
    simp only [List.foldl_cons]
    have : rmStep hs m = hs := by
      unfold rmStep
      simp [hm m (by simp)]
    rw [this]
    exact ih (fun x hx => hm x (by simp [hx]))

/-- `Remove(p, OPTIONS)` (or HEAD, or "") does nothing to a node that still has a registered method. -/
theorem removeMethods_noop {ht : Bool} {n : Node} (hg : Good ht n) (methods : List Bytes)
    (hne : methods ≠ []) (hm : ∀ m ∈ methods, m = mOPTIONS ∨ m = mHEAD ∨ m = mNotAllowed)
    (hlen : n.handlers.length ≠ 2) : removeMethods ht methods n = n := by
  have hh : (removeMethods ht methods n).handlers = n.handlers := by
    rw [removeMethods_handlers, foldl_rmStep_noop methods hm]
    have : methods.isEmpty = false := by cases methods <;> simp at hne ⊢
    simp [this, hlen]
  have hmi : (removeMethods ht methods n).methodIndex = nodeMethodIndex ht (removeMethods ht methods n).handlers := by
    unfold removeMethods; simp [Node.setHandlers]
  have hrest : (removeMethods ht methods n).seg = n.seg ∧ (removeMethods ht methods n).pattern = n.pattern ∧
      (removeMethods ht methods n).indexes = n.indexes ∧ (removeMethods ht methods n).children = n.children := by
    unfold removeMethods; simp [Node.setHandlers]
  rw [Node.eta (removeMethods ht methods n), hmi, hh, ← hg.1.1, hrest.1, hrest.2.1, hrest.2.2.1, hrest.2.2.2]
  exact (Node.eta n).symm

theorem effMethods_of_ne {methods : List Bytes} (h : methods ≠ []) : effMethods methods = methods := by
  unfold effMethods
  cases methods with
  | nil => exact absurd rfl h
  | cons _ _ => simp

/-- A reserved or unknown method anywhere in the list: `Tree.add` never succeeds. -/
theorem add_bad_not_ok (t : Tree) (p : Bytes) (h : Handler) (ms : List Nat) (methods : List Bytes)
    (hbad : ∃ m ∈ methods, BadMethod t.hasTrace m) (t' : Tree) : t.add p h ms methods ≠ .ok t' := by
  intro he
  obtain ⟨_, _, _, _, _, hcm, _⟩ := Tree.add_ok he
  obtain ⟨m, hm, hb⟩ := hbad
  have hne : methods ≠ [] := by intro h0; simp [h0] at hm
  rw [effMethods_of_ne hne] at hcm
  exact checkMethods_ok t p methods [] hcm m hm hb

/-- …and once the pattern itself is accepted, the error is `reserved`, `unknownMethod` or
`dupMethod` (the first refused entry decides which). -/
theorem add_bad_class (t : Tree) (p : Bytes) (h : Handler) (ms : List Nat) (methods : List Bytes)
    (hbad : ∃ m ∈ methods, BadMethod t.hasTrace m)
    {a : Option Bool} (hamb : t.root.checkAmb t.ic p false = .ok a) (ha : a ≠ some true)
    {segs : List Seg} (hsp : split t.ic p = .ok segs) :
    ∃ e, t.add p h ms methods = .error e ∧ (e = .reserved ∨ e = .unknownMethod ∨ e = .dupMethod) := by
  have hne : methods ≠ [] := by
    obtain ⟨m, hm, _⟩ := hbad
    intro h0; simp [h0] at hm
  obtain ⟨e, he⟩ := checkMethods_bad t p methods [] hbad
  refine ⟨e, ?_, checkMethods_error t p methods [] e he⟩
  have heff : (if methods.isEmpty = true then anyMethods else methods) = methods := effMethods_of_ne hne
  unfold Tree.add
  simp only [bind, Except.bind, pure, Except.pure, hamb, heff]
  cases a with
  | none => simp [hsp, he]
  | some b =>
    cases b with
    | true => exact absurd rfl ha
    | false => simp [hsp, he]


theorem length_ne_two_of_three {α} {l : List α} {a b c : α} (ha : a ∈ l) (hb : b ∈ l) (hc : c ∈ l)
    (hab : a ≠ b) (hac : a ≠ c) (hbc : b ≠ c) : l.length ≠ 2 := by
  intro hl
  match l, hl with
  | [x, y], _ =>
    simp only [List.mem_cons, List.not_mem_nil, or_false] at ha hb hc
    rcases ha with rfl | rfl <;> rcases hb with rfl | rfl <;> rcases hc with rfl | rfl <;>
      first | exact hab rfl | exact hac rfl | exact hbc rfl

/-- "Another method remains": a key besides OPTIONS and `""`. -/
theorem length_ne_two_of_other {ht : Bool} {hs : AMap Handler} (h : KeyShape ht hs)
    (hother : ∃ k ∈ hs.keys, k ≠ mOPTIONS ∧ k ≠ mNotAllowed) : hs.length ≠ 2 := by
  obtain ⟨k, hk, h1, h2⟩ := hother
  have := length_ne_two_of_three hk h.options h.notAllowed h1 h2 method_consts_ne.2.2.2.2.2.2.2.1
  simpa [AMap.keys] using this

end Mux
