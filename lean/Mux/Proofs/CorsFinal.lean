/-
  Mux.Proofs.CorsFinal — from the header map handed to the handler (`Call.respHeaders`) to the header map AFTER
  `ServeHTTP` (`Rec.hdr`, and the snapshot `Rec.snap` taken when the status line was written): a script that never
  names header `k` leaves `k` as it was; mux's own handlers (404, 405, OPTIONS, TRACE) and the `headResponse`
  wrapper name only `Allow`, `X-Trace` and `Content-Length`.  Helpers of `Mux/Properties/C11history.lean`.
-/
import Mux.Proofs.Head
import Mux.Proofs.Cors
import Mux.Proofs.Recover
namespace Mux.P24
open Mux

/-- The header a script step names, if any. -/
def actKey : Act → Option Bytes
  | .setHeader k _ => some k
  | .addHeader k _ => some k
  | .delHeader k => some k
  | _ => none

/-- The script names none of the headers `ks` (it neither sets, adds nor deletes them). -/
def Quiet (ks : List Bytes) (acts : List Act) : Prop := ∀ a ∈ acts, ∀ k ∈ ks, actKey a ≠ some k

instance (ks : List Bytes) (acts : List Act) : Decidable (Quiet ks acts) := by unfold Quiet; infer_instance

theorem Quiet.tail {ks : List Bytes} {a : Act} {acts : List Act} (h : Quiet ks (a :: acts)) : Quiet ks acts :=
  fun b hb => h b (List.mem_cons_of_mem _ hb)

theorem Quiet.mono {ks ks' : List Bytes} {acts : List Act} (h : Quiet ks acts) (hs : ∀ k ∈ ks', k ∈ ks) :
    Quiet ks' acts := fun a ha k hk => h a ha k (hs k hk)

theorem values_del_ne (h : Hdr) {k k' : Bytes} (hne : k' ≠ k) : (h.del k).values k' = h.values k' := by
  unfold Hdr.del Hdr.values
  rw [List.find?_filter]
  have : (fun a : Bytes × List Bytes => decide (decide (a.1 ≠ k) = true ∧ decide (a.1 = k') = true)) =
      (fun a => decide (a.1 = k')) := by
    funext a
    by_cases h : a.1 = k'
    · simp [h, hne]
    · simp [h]
  rw [this]

/-- Header `k` of a recorder: its values and presence in the live map, and in the snapshot if one was taken. -/
structure Keeps (k : Bytes) (vs : List Bytes) (b : Bool) (r : Rec) : Prop where
  values : r.hdr.values k = vs
  has : r.hdr.has k = b
  snap : ∀ s, r.snap = some s → s.values k = vs ∧ s.has k = b

theorem keeps_init (k : Bytes) (hs : Hdr) : Keeps k (hs.values k) (hs.has k) { hdr := hs } :=
  ⟨rfl, rfl, fun s h => by cases h⟩

theorem keeps_hdr {k : Bytes} {vs : List Bytes} {b : Bool} {r : Rec} (h : Keeps k vs b r) (hd : Hdr)
    (h1 : hd.values k = r.hdr.values k) (h2 : hd.has k = r.hdr.has k) : Keeps k vs b { r with hdr := hd } :=
  ⟨h1.trans h.values, h2.trans h.has, h.snap⟩

theorem keeps_writeHeader {k : Bytes} {vs : List Bytes} {b : Bool} {r : Rec} (h : Keeps k vs b r) (c : Nat) :
    Keeps k vs b (r.writeHeader c) := by
  unfold Rec.writeHeader
  split
  · exact h
  · split
    · exact h
    · exact ⟨h.values, h.has, fun s hs => by cases hs; exact ⟨h.values, h.has⟩⟩

theorem keeps_write {k : Bytes} {vs : List Bytes} {b : Bool} {r : Rec} (h : Keeps k vs b r) (n : Nat) :
    Keeps k vs b (r.write n) := by
  have := keeps_writeHeader h 200
  exact ⟨this.values, this.has, this.snap⟩

theorem keeps_act {k : Bytes} {vs : List Bytes} {b : Bool} {r : Rec} (h : Keeps k vs b r) (k' : Bytes)
    (hne : k ≠ k') :
    (∀ v, Keeps k vs b { r with hdr := r.hdr.set k' v }) ∧ (∀ v, Keeps k vs b { r with hdr := r.hdr.add k' v }) ∧
      Keeps k vs b { r with hdr := r.hdr.del k' } := by
  refine ⟨fun v => keeps_hdr h _ (Hdr.values_set_ne _ v hne) ?_, fun v => keeps_hdr h _ (Hdr.values_add_ne _ v hne) ?_,
    keeps_hdr h _ (values_del_ne _ hne) (Hdr.has_del_ne _ hne)⟩
  · rw [Hdr.has_set]; simp [hne]
  · rw [Hdr.has_add]; simp [hne]

theorem keeps_runGet (k : Bytes) (vs : List Bytes) (b : Bool) (acts : List Act) (hq : Quiet [k] acts) :
    ∀ r, Keeps k vs b r → Keeps k vs b (runGet acts r) := by
  induction acts with
  | nil => intro r h; exact h
  | cons a acts ih =>
    intro r h
    have hk : ∀ k', actKey a = some k' → k ≠ k' := fun k' h' e =>
      hq a List.mem_cons_self k (by simp) (by rw [h', e])
    cases a with
    | setHeader k' v => exact ih hq.tail _ ((keeps_act h k' (hk k' rfl)).1 v)
    | addHeader k' v => exact ih hq.tail _ ((keeps_act h k' (hk k' rfl)).2.1 v)
    | delHeader k' => exact ih hq.tail _ (keeps_act h k' (hk k' rfl)).2.2
    | writeHeader c => exact ih hq.tail _ (keeps_writeHeader h c)
    | write n => exact ih hq.tail _ (keeps_write h n)

theorem keeps_runHead (k : Bytes) (vs : List Bytes) (b : Bool) (hcl : k ≠ hContentLength) (acts : List Act)
    (hq : Quiet [k] acts) : ∀ sz wr r, Keeps k vs b r → Keeps k vs b (runHead acts sz wr r) := by
  induction acts with
  | nil => intro sz wr r h; exact h
  | cons a acts ih =>
    intro sz wr r h
    have hk : ∀ k', actKey a = some k' → k ≠ k' := fun k' h' e =>
      hq a List.mem_cons_self k (by simp) (by rw [h', e])
    cases a with
    | setHeader k' v => exact ih hq.tail _ _ _ ((keeps_act h k' (hk k' rfl)).1 v)
    | addHeader k' v => exact ih hq.tail _ _ _ ((keeps_act h k' (hk k' rfl)).2.1 v)
    | delHeader k' => exact ih hq.tail _ _ _ (keeps_act h k' (hk k' rfl)).2.2
    | writeHeader c =>
      rw [runHead]
      cases wr
      · exact ih hq.tail _ _ _ (keeps_writeHeader h c)
      · exact ih hq.tail _ _ _ h
    | write n => exact ih hq.tail _ _ _ ((keeps_act h hContentLength hcl).1 _)

/-- The recovery function on the writer it was handed. -/
theorem keeps_recRec (k : Bytes) (hcl : k ≠ hContentLength) (acts : List Act) (hq : Quiet [k] acts) (hw : Bool)
    (hs : Hdr) : Keeps k (hs.values k) (hs.has k) (recRec acts hw hs) := by
  unfold recRec
  cases hw
  · exact keeps_runGet k _ _ acts hq _ (keeps_init k hs)
  · exact keeps_runHead k _ _ hcl acts hq _ _ _ (keeps_init k hs)

/-- The scripts of mux's own handlers name only `Allow` and `X-Trace`; a user handler runs its own script. -/
theorem script_quiet (scripts : Scripts) (h : Handler) (allow : Bytes) (acts : List Act) (k : Bytes)
    (hA : k ≠ hAllow) (hX : k ≠ hXTrace)
    (hu : ∀ id, h.base = .user id → Quiet [k] (scripts.get id))
    (hs : h.script scripts allow = some acts) : Quiet [k] acts := by
  have hA' : ¬ hAllow = k := fun e => hA e.symm
  have hX' : ¬ hXTrace = k := fun e => hX e.symm
  unfold Handler.script at hs
  split at hs <;> first
    | (rename_i id hb; cases hs; exact hu id hb)
    | (cases hs; intro a ha k' hk'; simp only [List.mem_singleton] at hk'; subst hk'
       simp only [List.mem_cons, List.not_mem_nil, or_false] at ha
       rcases ha with rfl | rfl <;> simp [actKey, hA', hX'])
    | (cases hs; intro a ha k' hk'; simp only [List.mem_singleton] at hk'; subst hk'
       simp only [List.mem_singleton] at ha; subst ha; simp [actKey, hA', hX'])
    | cases hs

/-- **The handler ran to its end.**  Header `k` (not `Allow`, `X-Trace`, `Content-Length`) of the final record — live
map and snapshot — is what the router had put into the map before the call, provided the script of the handler, IF it
is a user handler, does not name `k`. -/
theorem keeps_runCall (pc : PanicCfg) (scripts : Scripts) (c : Call) (rec : Rec) (k : Bytes)
    (hA : k ≠ hAllow) (hX : k ≠ hXTrace) (hcl : k ≠ hContentLength)
    (hu : ∀ id, c.handler.base = .user id → Quiet [k] (scripts.get id))
    (h : runCall pc scripts c = .ok rec) : Keeps k (c.respHeaders.values k) (c.respHeaders.has k) rec := by
  rw [runCall_eq] at h
  split at h
  · cases h
  · split at h
    · cases h
    · split at h
      · cases h
      · rename_i acts hs
        have hq := script_quiet scripts c.handler c.allow acts k hA hX hu hs
        cases h
        cases c.headWrap
        · exact keeps_runGet k _ _ acts hq _ (keeps_init k c.respHeaders)
        · exact keeps_runHead k _ _ hcl acts hq _ _ _ (keeps_init k c.respHeaders)

/-- The record carried by an outcome, if the request was answered at all. -/
def outRec : Outcome → Option Rec
  | .normal r => some r
  | .recovered _ r => some r
  | _ => none

/-- **After `ServeHTTP`.**  Whatever way the call ends with a response (the handler returned, or it panicked and the
recovery function answered), header `k` of the final record is the one the router had put there. -/
theorem keeps_finish (pc : PanicCfg) (scripts : Scripts) (c : Call) (out : Outcome) (rec : Rec) (k : Bytes)
    (hA : k ≠ hAllow) (hX : k ≠ hXTrace) (hcl : k ≠ hContentLength)
    (hu : ∀ id, c.handler.base = .user id → Quiet [k] (scripts.get id))
    (hr : Quiet [k] c.recActs)
    (h : (ServeRes.call c).finish pc scripts = (some c, out)) (ho : outRec out = some rec) :
    Keeps k (c.respHeaders.values k) (c.respHeaders.has k) rec := by
  simp only [ServeRes.finish, Prod.mk.injEq, true_and] at h
  subst h
  unfold withRecover at ho
  split at ho
  · rename_i r hrun
    cases ho
    exact keeps_runCall pc scripts c _ k hA hX hcl hu hrun
  · split at ho
    · cases ho
      exact keeps_recRec k hcl c.recActs hr c.headWrap c.respHeaders
    · cases ho

end Mux.P24
