/-
  Mux.Proofs.HostsLateStruct3 — the full table-free structural invariant `SX3` (every child segment is `newSegment`
  of its text under SOME table; sibling texts pairwise different; children ordered by kind; the index is the built
  one; literal siblings start with distinct bytes) is kept by `getNode` run with the current table.  This is what the
  frame property of `Tree.remove` needs (`Mux/Proofs/HostsLateFrame.lean`): with it the first-byte index is the
  linear scan.
-/
import Mux.Proofs.HostsLateStruct
import Mux.Proofs.StructDistinct
namespace Mux.P17
open Mux Mux.P9

structure SX3 (n : Node) : Prop where
  segs : ∀ c ∈ n.children, SegOkX c.seg
  nodup : n.children.Pairwise (fun a b => a.seg.value ≠ b.seg.value)
  sorted : P8.RankSorted n.children
  index : buildIndexes n.children = .ok n.indexes
  distinct : n.children.Pairwise P8.DRel

theorem SX3.toSX {n : Node} (h : SX3 n) : SX n := ⟨h.sorted, h.index⟩

theorem pairwise_values_iff_map (cs : List Node) :
    cs.Pairwise (fun a b => a.seg.value ≠ b.seg.value) ↔
      (cs.map P8.sigc).Pairwise (fun x y => x.1.value ≠ y.1.value) := by
  rw [List.pairwise_map]; rfl

theorem segs_of_map_sublist {cs cs' : List Node} (hs : (cs'.map P8.sigc).Sublist (cs.map P8.sigc))
    (h : ∀ c ∈ cs, SegOkX c.seg) : ∀ c ∈ cs', SegOkX c.seg := by
  intro c hc
  have : P8.sigc c ∈ cs.map P8.sigc := hs.subset (List.mem_map_of_mem hc)
  obtain ⟨d, hd, hsd⟩ := List.mem_map.1 this
  have : d.seg = c.seg := congrArg Prod.fst hsd
  rw [← this]; exact h d hd

theorem SX3.of_map_sublist {n m : Node} (h : SX3 n) (hs : (m.children.map P8.sigc).Sublist (n.children.map P8.sigc))
    (hi : buildIndexes m.children = .ok m.indexes) : SX3 m :=
  ⟨segs_of_map_sublist hs h.segs,
    by have := h.nodup; rw [pairwise_values_iff_map] at this ⊢; exact this.sublist hs,
    h.sorted.of_map_sublist hs, hi,
    by have := h.distinct; rw [P8.pairwise_DRel_iff_map] at this ⊢; exact this.sublist hs⟩

theorem SX3.closed : P8.Closed SX3 where
  congr := fun h _ hi hs =>
    h.of_map_sublist (by rw [hs]; exact List.Sublist.refl _) (by rw [hi, P8.buildIndexes_congr hs]; exact h.index)
  sublist := fun h _ hs hi => h.of_map_sublist hs hi
  empty := fun _ _ _ _ => ⟨by intro c hc; simp at hc, by simp, by simp [P8.RankSorted],
    by simp [buildIndexes, indexesSize], by simp⟩

theorem AllSX_of_SX3 : ∀ n : Node, Node.All SX3 n → Node.All SX n := (AllL_mono (fun _ h => SX3.toSX h)).1

theorem SX3.of_sortNode {m n1 : Node} (hs : sortNode m = .ok n1) (hsegs : ∀ c ∈ m.children, SegOkX c.seg)
    (hd : m.children.Pairwise P8.DRel) : SX3 n1 := by
  have hch := (sortNode_children hs).1
  have hperm := sortChildren_perm m.children
  refine ⟨?_, ?_, (SX.of_sortNode hs).sorted, (SX.of_sortNode hs).index, ?_⟩
  · intro c hc; exact hsegs c ((mem_of_sortNode hs).1 hc)
  · rw [hch]
    exact (List.Perm.pairwise_iff (fun h e => h e.symm) hperm).2 (pairwise_of_hasDupValues (sortNode_nodup hs))
  · rw [hch]
    exact (List.Perm.pairwise_iff (fun h => P8.DRel.symm h) hperm).2 hd

theorem setSeg_AllSX3 {c : Node} (s : Seg) (h : Node.All SX3 c) : Node.All SX3 (c.setSeg s) := by
  rw [Node.All_iff] at h ⊢
  refine ⟨⟨?_, ?_, ?_, ?_, ?_⟩, by simpa using h.2⟩
  · simpa using h.1.segs
  · simpa using h.1.nodup
  · simpa using h.1.sorted
  · cases c; exact h.1.index
  · simpa using h.1.distinct

theorem newLeaf_AllSX3 (pp : Bytes) (s : Seg) : Node.All SX3 (newLeaf pp s) := by
  simp only [newLeaf, Node.All, AllL, and_true]
  exact SX3.closed.empty _ _ _ _

theorem head_take {v : Bytes} {L : Nat} (h : 0 < L) : (v.take L).head? = v.head? := by
  cases v with
  | nil => simp
  | cons x a =>
    obtain ⟨k, rfl⟩ : ∃ k, L = k + 1 := ⟨L - 1, by omega⟩
    simp

/-- **One level of `getNode`** on a tree satisfying `SX3` everywhere, for a new segment parsed under the current
table. -/
theorem gnPrep_SX3 {ic : Interceptors} {n : Node} {v : Bytes} {rest : List Bytes} {seg : Seg} {s : GStep}
    (hn : Node.All SX3 n) (hseg : newSegment ic v = .ok seg) (hok : SegOk ic seg)
    (h : gnPrep ic n v rest = .ok s) :
    Node.All SX3 s.n1 ∧ P8.sigc s.n1 = P8.sigc n ∧ s.n1.children[s.j]? = some s.parent ∧
      Node.All SX3 s.parent ∧ ContX v rest s := by
  have hsv : seg.value = v := newSegment_value ic v seg hseg
  unfold gnPrep at h
  simp only [bind, Except.bind, hseg, pure, Except.pure, throw, throwThe, MonadExceptOf.throw] at h
  have hscan := scanChildren_spec seg n.children 0 0 0
  cases hsc : scanChildren seg n.children 0 0 0 with
  | identical i =>
    rw [hsc] at hscan h
    obtain ⟨c, _, hc, hval⟩ := hscan
    simp only [Nat.sub_zero] at hc
    simp only [hc, Except.ok.injEq] at h
    subst h
    exact ⟨hn, rfl, hc, AllL_getElem? hn.tail hc, .inl rfl⟩
  | best l b =>
    rw [hsc] at hscan h
    obtain ⟨a1, a2, a3, _⟩ := hscan
    simp only [] at h
    by_cases hl : l ≤ 0
    · -- a new leaf
      simp only [hl, if_true] at h
      split at h
      · cases h
      rename_i n1 hn1
      split at h
      · cases h
      rename_i j hj
      simp only [Except.ok.injEq] at h
      subst h
      obtain ⟨hch, hsg, hpt⟩ := sortNode_children hn1
      have hleafD : ∀ c ∈ n.children, P8.DRel c (newLeaf n.pattern seg) := by
        intro c hc hck hnk he
        simp only [newLeaf, Node.seg_mk] at hnk he
        obtain ⟨ic0, hc0⟩ := hn.head.segs c hc
        have hcn : P8.NoBrace c.seg.value := hc0.kind_str_iff.1 hck
        have hvn : P8.NoBrace v := by have := hok.kind_str_iff.1 hnk; rwa [hsv] at this
        obtain ⟨hs2, hs1⟩ := a1 c hc
        by_cases hvc : seg.value = c.seg.value
        · exact hs2 (P8.similarity_of_eq hvc)
        · rw [P8.similarity_same_kind hvc (by rw [hnk, hck])] at hs1
          rw [hsv] at he hs1
          cases hcv : c.seg.value with
          | nil => exact hc0.ne hcv
          | cons x a =>
            cases hvv : v with
            | nil => exact hok.ne (by rw [hsv]; exact hvv)
            | cons y b' =>
              rw [hcv, hvv] at he
              simp only [List.head?_cons, Option.some.injEq] at he
              subst he
              rw [hcv] at hcn; rw [hvv] at hvn
              have := P8.longestPrefix_noBrace_pos hvn hcn
              rw [hcv, hvv] at hs1
              omega
      refine ⟨?_, ?_, ?_, newLeaf_AllSX3 _ _, .inl rfl⟩
      · rw [Node.All_iff]
        refine ⟨SX3.of_sortNode hn1 ?_ ?_, ?_⟩
        · intro c hc
          simp only [setChildren_children, List.mem_append, List.mem_singleton] at hc
          rcases hc with hc | rfl
          · exact hn.head.segs c hc
          · exact ⟨ic, hok⟩
        · simp only [setChildren_children]
          rw [List.pairwise_append]
          refine ⟨hn.head.distinct, by simp, ?_⟩
          intro a ha b' hb'
          simp only [List.mem_singleton] at hb'; subst hb'
          exact hleafD a ha
        · rw [hch, AllL_sortChildren]
          simp only [setChildren_children]
          exact AllL_append.2 ⟨hn.tail, by simp only [AllL, and_true]; exact newLeaf_AllSX3 _ _⟩
      · simp only [P8.sigc, hsg, hpt, setChildren_seg, setChildren_pattern]
      · exact childPos_sortNode hn1 hj (by simp) (by simp [newLeaf, hsv])
    · -- a similar child
      have hl0 : 0 < l := by omega
      simp only [hl, if_false] at h
      obtain ⟨c, _, hc, hsim⟩ := a3 hl0
      simp only [Nat.sub_zero] at hc
      simp only [hc] at h
      rw [← hsim] at hl0
      obtain ⟨hvne, hkind, hlp⟩ := similarity_pos hl0
      have hcm : c ∈ n.children := List.mem_of_getElem? hc
      have hcAll := AllL_getElem? hn.tail hc
      obtain ⟨ic0, hc0⟩ := hn.head.segs c hcm
      rw [hlp, longestPrefix_comm] at hl0
      obtain ⟨L, hL, hL0, hLc, hLv, hpre, hdc, hdv, hname, _, _, s1, hs1, hw1, hk1, hn1, _, _, hsplit⟩ :=
        cutPointX hc0 hok hkind.symm hl0
      have hlL : l.toNat = L := by
        rw [← hsim, hlp, longestPrefix_comm, hL]; simp
      rw [hsv] at hLv hdv
      have hcont : ∀ (n1 : Node) (j : Nat) (parent : Node),
          ContX v rest ⟨n1, j, parent, if v.length ≤ L then restCont rest else some (v.drop L, rest)⟩ := by
        intro n1 j parent
        by_cases hvl : v.length ≤ L
        · left; simp [hvl]
        · right; exact ⟨L, hL0, by omega, hdv, by simp [hvl]⟩
      simp only [hlL] at h
      cases hgs : gnSplit ic n c b L with
      | error e => rw [hgs] at h; cases h
      | ok r3 =>
        obtain ⟨n1, j, parent⟩ := r3
        rw [hgs] at h
        simp only [Except.ok.injEq] at h
        subst h
        unfold gnSplit at hgs
        simp only [bind, Except.bind, pure, Except.pure, throw, throwThe, MonadExceptOf.throw] at hgs
        by_cases hcl : c.seg.value.length ≤ L
        · simp only [hcl, if_true, Except.ok.injEq, Prod.mk.injEq] at hgs
          obtain ⟨rfl, rfl, rfl⟩ := hgs
          exact ⟨hn, rfl, hc, hcAll, hcont _ _ _⟩
        · have hlt : L < c.seg.value.length := by omega
          obtain ⟨hsp, hs1ok, hs2ok⟩ := hsplit hlt
          simp only [hcl, if_false, hsp] at hgs
          cases hret : sortNode (Node.mk s1 (n.pattern ++ s1.value) 0 [] [] [c.setSeg { value := c.seg.value.drop L }]) with
          | error e => rw [hret] at hgs; cases hgs
          | ok ret =>
            rw [hret] at hgs
            simp only [] at hgs
            cases hn1' : sortNode (n.setChildren (removeNodes n.children c.seg.value ++ [ret]) n.indexes) with
            | error e => rw [hn1'] at hgs; cases hgs
            | ok n1' =>
              rw [hn1'] at hgs
              simp only [] at hgs
              split at hgs
              · cases hgs
              rename_i j' hj
              simp only [Except.ok.injEq, Prod.mk.injEq] at hgs
              obtain ⟨rfl, rfl, rfl⟩ := hgs
              obtain ⟨hrch, hrsg, _⟩ := sortNode_children hret
              have hretseg : ret.seg = s1 := by simpa using hrsg
              have hs1v : s1.value = c.seg.value.take L := newSegment_value ic _ s1 hs1
              have hretAll : Node.All SX3 ret := by
                rw [Node.All_iff]
                refine ⟨SX3.of_sortNode hret ?_ (by simp), ?_⟩
                · intro x hx
                  simp only [Node.children_mk, List.mem_singleton] at hx
                  subst hx
                  exact ⟨ic, by simpa using hs2ok⟩
                · rw [hrch, AllL_sortChildren]
                  simp only [Node.children_mk, AllL, and_true]
                  exact setSeg_AllSX3 _ hcAll
              have hrem := removeNodes_values (v := c.seg.value) hn.head.nodup
              have hretRel : ∀ d ∈ removeNodes n.children c.seg.value, P8.DRel d ret := by
                intro d hd hdk hrk he
                rw [hretseg] at hrk he
                have hck : c.seg.kind = .str := by rw [← hk1]; exact hrk
                have hdm : d ∈ n.children := (removeNodes_sublist _ _).subset hd
                have hne : d ≠ c := fun e => hrem d hd (by rw [e])
                have hdc' : P8.DRel d c :=
                  pairwise_mem_ne (R := P8.DRel) (fun _ _ h => P8.DRel.symm h) hn.head.distinct hdm hcm hne
                rw [hs1v, head_take hL0] at he
                exact hdc' hdk hck he
              obtain ⟨hch, hsg, hpt⟩ := sortNode_children hn1'
              refine ⟨?_, ?_, ?_, hretAll, hcont _ _ _⟩
              · rw [Node.All_iff]
                refine ⟨SX3.of_sortNode hn1' ?_ ?_, ?_⟩
                · intro x hx
                  simp only [setChildren_children, List.mem_append, List.mem_singleton] at hx
                  rcases hx with hx | rfl
                  · exact hn.head.segs x ((removeNodes_sublist _ _).subset hx)
                  · rw [hretseg]; exact ⟨ic, hs1ok⟩
                · simp only [setChildren_children]
                  rw [List.pairwise_append]
                  refine ⟨hn.head.distinct.sublist (removeNodes_sublist _ _), by simp, ?_⟩
                  intro a ha b' hb'
                  simp only [List.mem_singleton] at hb'; subst hb'
                  exact hretRel a ha
                · rw [hch, AllL_sortChildren]
                  simp only [setChildren_children]
                  exact AllL_append.2 ⟨AllL_removeNodes _ hn.tail, by simp only [AllL, and_true]; exact hretAll⟩
              · simp only [P8.sigc, hsg, hpt, setChildren_seg, setChildren_pattern]
              · exact childPos_sortNode hn1' hj (by simp) (by rw [hretseg])

/-- The pieces still to be inserted are well-formed and not empty. -/
def PiecesWf (v : Bytes) (rest : List Bytes) : Prop := ∀ x ∈ v :: rest, WfPiece x ∧ x ≠ []

/-- **`getNode` keeps `SX3` on the whole subtree.** -/
theorem getNode_SX3 (ic : Interceptors) (n : Node) (v : Bytes) (rest : List Bytes) :
    ∀ r, Node.All SX3 n → PiecesWf v rest → getNode ic n v rest = .ok r →
      Node.All SX3 r.1 ∧ P8.sigc r.1 = P8.sigc n := by
  induction n, v, rest using getNode_induction ic with
  | step n v rest ih =>
    intro r hn hpw hget
    rw [getNode_eq] at hget
    cases hprep : gnPrep ic n v rest with
    | error e => rw [hprep] at hget; cases hget
    | ok s =>
      rw [hprep] at hget
      simp only [gnFinish] at hget
      have hseg : ∃ seg, newSegment ic v = .ok seg := by
        unfold gnPrep at hprep
        simp only [bind, Except.bind] at hprep
        cases hs : newSegment ic v with
        | error e => rw [hs] at hprep; cases hprep
        | ok seg => exact ⟨seg, rfl⟩
      obtain ⟨seg, hseg⟩ := hseg
      have hok : SegOk ic seg := SegOk.of_newSegment hseg (hpw v (by simp)).1 (hpw v (by simp)).2
      obtain ⟨h1, h2, h3, h4, hcx⟩ := gnPrep_SX3 hn hseg hok hprep
      cases hcont : s.cont with
      | none =>
        rw [hcont] at hget
        simp only [pure, Except.pure, Except.ok.injEq] at hget
        subst hget
        exact ⟨h1, h2⟩
      | some vr =>
        obtain ⟨v', rest'⟩ := vr
        rw [hcont] at hget
        simp only [bind, Except.bind, pure, Except.pure] at hget
        cases hrec : getNode ic s.parent v' rest' with
        | error e => rw [hrec] at hget; cases hget
        | ok r' =>
          rw [hrec] at hget
          simp only [Except.ok.injEq] at hget
          subst hget
          have hpw' : PiecesWf v' rest' := by
            rcases hcx with hc1 | ⟨L, hL0, hLv, hnb, hc1⟩
            · rw [hc1] at hcont
              have := restCont_some hcont
              subst this
              intro x hx
              exact hpw x (List.mem_cons_of_mem _ hx)
            · rw [hc1] at hcont
              simp only [Option.some.injEq, Prod.mk.injEq] at hcont
              obtain ⟨rfl, rfl⟩ := hcont
              intro x hx
              rcases List.mem_cons.1 hx with rfl | hx
              · refine ⟨.inl hnb, ?_⟩
                intro e
                have := congrArg List.length e
                simp at this
                omega
              · exact hpw x (List.mem_cons_of_mem _ hx)
          obtain ⟨hp1, hp2⟩ := ih s v' rest' hprep hcont r' h4 hpw' hrec
          refine ⟨?_, ?_⟩
          · rw [Node.All_iff]
            refine ⟨SX3.closed.congr h1.head (by simp) (by simp) ?_, ?_⟩
            · simp only [setChildren_children]
              exact P8.map_sigc_set h3 hp2
            · simpa using AllL_set h1.tail hp1
          · simpa [P8.sigc] using h2

end Mux.P17
