/-
  Mux.Proofs.ResolveLists — list facts about the vocabulary of the reference resolver
  (`Spec.lcp`, `Spec.leadLit`, `Spec.keyOf`, `Spec.litOf`, `Spec.groups`) used by the canonical-form
  proof (`ResolveStatic.lean`).
-/
import Mux.Proofs.ResolveCanon
import Mux.Proofs.TableShape
namespace Mux.P15
open Mux Mux.Spec

/-! ## `lcp2`, `lcp` -/

@[simp] theorem lcp2_nil_left (b : Bytes) : lcp2 [] b = [] := by simp [lcp2]
@[simp] theorem lcp2_nil_right (a : Bytes) : lcp2 a [] = [] := by cases a <;> simp [lcp2]

theorem lcp2_cons (a b : UInt8) (s t : Bytes) : lcp2 (a :: s) (b :: t) = if a = b then a :: lcp2 s t else [] := by
  simp [lcp2]

theorem lcp2_prefix_left : ∀ a b : Bytes, lcp2 a b <+: a
  | [], b => by simp
  | a :: s, [] => by simp
  | a :: s, b :: t => by
    rw [lcp2_cons]
    split
    · exact List.prefix_cons_inj _ |>.2 (lcp2_prefix_left s t)
    · exact List.nil_prefix

theorem lcp2_prefix_right : ∀ a b : Bytes, lcp2 a b <+: b
  | [], b => by simp
  | a :: s, [] => by simp
  | a :: s, b :: t => by
    rw [lcp2_cons]
    split
    · rename_i h; subst h
      exact List.prefix_cons_inj _ |>.2 (lcp2_prefix_right s t)
    · exact List.nil_prefix

theorem lcp2_append (s a b : Bytes) : lcp2 (s ++ a) (s ++ b) = s ++ lcp2 a b := by
  induction s with
  | nil => rfl
  | cons c s ih => simp [lcp2_cons, ih]

theorem lcp_cons_cons (s s' : Bytes) (ss : List Bytes) : lcp (s :: s' :: ss) = lcp2 s (lcp (s' :: ss)) := rfl

/-- The common prefix is a prefix of every member. -/
theorem lcp_prefix : ∀ {l : List Bytes} {s : Bytes}, s ∈ l → lcp l <+: s
  | [], _, h => by cases h
  | [x], s, h => by
    simp only [List.mem_singleton] at h
    subst h; exact List.prefix_refl _
  | x :: y :: l, s, h => by
    rw [lcp_cons_cons]
    rcases List.mem_cons.1 h with rfl | h
    · exact lcp2_prefix_left _ _
    · exact (lcp2_prefix_right _ _).trans (lcp_prefix h)

theorem lcp_eq_nil_of_nil_mem {l : List Bytes} (h : [] ∈ l) : lcp l = [] :=
  List.prefix_nil.1 (lcp_prefix h)

theorem lcp_eq_nil_of_heads {l : List Bytes} {x y : Bytes} (hx : x ∈ l) (hy : y ∈ l) (hne : x.head? ≠ y.head?) :
    lcp l = [] := by
  cases hl : lcp l with
  | nil => rfl
  | cons a t =>
    obtain ⟨u, hu⟩ := lcp_prefix hx
    obtain ⟨w, hw⟩ := lcp_prefix hy
    rw [hl] at hu hw
    exact absurd (by rw [← hu, ← hw]; rfl) hne

theorem lcp_map_append (s : Bytes) : ∀ {l : List Bytes}, l ≠ [] → lcp (l.map (fun x => s ++ x)) = s ++ lcp l
  | [], h => absurd rfl h
  | [x], _ => rfl
  | x :: y :: l, _ => by
    simp only [List.map_cons] at *
    rw [lcp_cons_cons, lcp_cons_cons]
    have := lcp_map_append s (l := y :: l) (by simp)
    simp only [List.map_cons] at this
    rw [this, lcp2_append]

/-! ## `leadLit` -/

@[simp] theorem leadLit_nil : leadLit [] = [] := rfl

theorem leadLit_start (r : Bytes) : leadLit (startByte :: r) = [] := by simp [leadLit]

theorem leadLit_append_plain {s : Bytes} (h : startByte ∉ s) (r : Bytes) : leadLit (s ++ r) = s ++ leadLit r := by
  induction s with
  | nil => rfl
  | cons c s ih =>
    simp only [List.mem_cons, not_or] at h
    have hc : c ≠ startByte := fun e => h.1 e.symm
    simp [leadLit, hc, ih h.2]

theorem leadLit_head_of_start {r : Bytes} (h : r.head? = some startByte) : leadLit r = [] := by
  cases r with
  | nil => rfl
  | cons b r =>
    simp only [List.head?_cons, Option.some.injEq] at h
    subst h; exact leadLit_start r

/-! ## `dedup`, `groups` on a leading block -/

theorem dedup_block {α : Type} [DecidableEq α] (k : α) (l : List α) (hk : k ∉ l) :
    ∀ n : Nat, dedup (List.replicate (n + 1) k ++ l) = k :: dedup l
  | 0 => by
    simp only [List.replicate, List.cons_append, List.nil_append]
    rw [dedup, if_neg hk]
  | n + 1 => by
    have ih := dedup_block k l hk n
    rw [List.replicate_succ, List.cons_append, dedup, if_pos (by simp), ih]

theorem filterMap_block {α β : Type} (f : α → Option β) (k : β) :
    ∀ B : List α, (∀ r ∈ B, f r = some k) → B.filterMap f = List.replicate B.length k
  | [], _ => rfl
  | a :: B, h => by
    rw [List.filterMap_cons, h a List.mem_cons_self]
    simp only [List.length_cons, List.replicate_succ, List.cons.injEq, true_and]
    exact filterMap_block f k B (fun r hr => h r (List.mem_cons_of_mem _ hr))

theorem mkGroup_congr {R R' : List Rem} {k : Key}
    (h : R.filter (fun r => keyOf r.1 = some k) = R'.filter (fun r => keyOf r.1 = some k)) :
    mkGroup R k = mkGroup R' k := by
  unfold mkGroup
  simp only [h]

/-- A leading block of remainders with one key that does not occur behind it forms the first group. -/
theorem groups_block {B R' : List Rem} {k : Key} (hne : B ≠ [])
    (hB : ∀ r ∈ B, keyOf r.1 = some k) (hR : ∀ r ∈ R', keyOf r.1 ≠ some k) :
    groups (B ++ R') = mkGroup B k :: groups R' := by
  unfold groups
  have hk : k ∉ R'.filterMap (fun r => keyOf r.1) := by
    intro hm
    obtain ⟨r, hr, e⟩ := List.mem_filterMap.1 hm
    exact hR r hr e
  obtain ⟨n, hn⟩ : ∃ n, B.length = n + 1 := by
    cases B with
    | nil => exact absurd rfl hne
    | cons a B => exact ⟨B.length, rfl⟩
  rw [List.filterMap_append, filterMap_block (fun r => keyOf r.1) k B hB, hn, dedup_block k _ hk n, List.map_cons]
  congr 1
  · apply mkGroup_congr
    rw [List.filter_append]
    have h1 : R'.filter (fun r => keyOf r.1 = some k) = [] := by
      rw [List.filter_eq_nil_iff]; intro r hr; simpa using hR r hr
    rw [h1, List.append_nil]
  · apply List.map_congr_left
    intro k' hk'
    rw [mem_dedup] at hk'
    have hne' : k' ≠ k := fun e => hk (e ▸ hk')
    apply mkGroup_congr
    rw [List.filter_append]
    have h1 : B.filter (fun r => keyOf r.1 = some k') = [] := by
      rw [List.filter_eq_nil_iff]; intro r hr
      rw [hB r hr]; simpa using hne'.symm
    rw [h1, List.nil_append]

theorem groups_nil : groups [] = [] := rfl

/-- An empty remainder forms no group. -/
theorem groups_cons_nil (p : Bytes) (R : List Rem) : groups (([], p) :: R) = groups R := by
  unfold groups
  have hk : keyOf ([] : Bytes) = none := rfl
  rw [List.filterMap_cons, hk]
  apply List.map_congr_left
  intro k _
  apply mkGroup_congr
  rw [List.filter_cons, hk]
  simp

/-! ## Keys and literal parts of texts that begin with a well-formed segment text -/

theorem indexByte_cons_ne {b c : UInt8} (h : c ≠ b) (r : Bytes) : indexByte b (c :: r) = (indexByte b r).map (· + 1) := by
  simp [indexByte, h]

theorem indexByte_append_end {ia : Bytes} (h : endByte ∉ ia) (r : Bytes) :
    indexByte endByte (ia ++ endByte :: r) = some ia.length := by
  induction ia with
  | nil => simp [indexByte]
  | cons c ia ih =>
    simp only [List.mem_cons, not_or] at h
    have hc : c ≠ endByte := fun e => h.1 e.symm
    rw [List.cons_append, indexByte_cons_ne hc, ih h.2]
    simp

/-- The token of a parameter text `{ia}`. -/
def tokText (ia : Bytes) : Bytes := startByte :: (ia ++ [endByte])

theorem param_eq (ia sa : Bytes) : startByte :: (ia ++ endByte :: sa) = tokText ia ++ sa := by
  simp [tokText]

theorem splitTok_param {ia : Bytes} (h : endByte ∉ ia) (r : Bytes) :
    splitTok (tokText ia ++ r) = some (tokText ia, r) := by
  unfold splitTok tokText
  have : indexByte endByte (startByte :: (ia ++ [endByte]) ++ r) = some (ia.length + 1) := by
    rw [List.cons_append, indexByte_cons_ne (by decide), List.append_assoc]
    show Option.map (· + 1) (indexByte endByte (ia ++ endByte :: r)) = _
    rw [indexByte_append_end h]; rfl
  rw [this]
  simp only [Option.some.injEq, Prod.mk.injEq]
  have hl : (startByte :: (ia ++ [endByte])).length = ia.length + 1 + 1 := by simp
  constructor
  · rw [List.take_append_of_le_length (by omega), List.take_of_length_le (by omega)]
  · rw [List.drop_append_of_le_length (by omega), List.drop_of_length_le (by omega), List.nil_append]

/-- Decomposition of a well-formed segment text into token and literal part, with the key and the
literal part of every text that begins with it. -/
structure ValForm (v tok suf : Bytes) : Prop where
  eq : v = tok ++ suf
  plain : startByte ∉ suf
  key : ∀ r, (suf ≠ [] ∨ r = []) → keyOf (v ++ r) = some (tok, suf.head?)
  lit : ∀ r, litOf (v ++ r) = suf ++ leadLit r
  vkey : P11.vkey v = tok ++ suf.take 1
  closed : suf = [] → P11.Closed v
  tokNe : tok = [] → suf ≠ []

theorem valForm_of_wf {v : Bytes} (h : P11.WfVal v) : ∃ tok suf, ValForm v tok suf := by
  rcases h with ⟨hne, hp⟩ | ⟨ia, sa, rfl, hia, hsa⟩
  · cases v with
    | nil => exact absurd rfl hne
    | cons c v =>
      have hc := hp.cons
      refine ⟨[], c :: v, rfl, hp.1, ?_, ?_, ?_, ?_, fun _ => hne⟩
      · intro r _
        simp [keyOf, hc.1]
      · intro r
        simp only [litOf, List.cons_append, hc.1, if_false]
        rw [← List.cons_append, leadLit_append_plain hp.1]
        rfl
      · rw [P11.vkey_plain hp]; rfl
      · intro e; cases e
  · refine ⟨tokText ia, sa, param_eq ia sa, hsa.1, ?_, ?_, ?_, ?_, ?_⟩
    · intro r hr
      rw [param_eq, List.append_assoc]
      have hst : tokText ia ++ (sa ++ r) = startByte :: (ia ++ [endByte] ++ (sa ++ r)) := by simp [tokText]
      unfold keyOf
      rw [hst]
      simp only [if_true]
      rw [← hst, splitTok_param hia.2]
      simp only [Option.some.injEq, Prod.mk.injEq, true_and]
      rw [leadLit_append_plain hsa.1]
      rcases hr with hr | rfl
      · cases sa with
        | nil => exact absurd rfl hr
        | cons a sa => rfl
      · simp
    · intro r
      rw [param_eq, List.append_assoc]
      have hst : tokText ia ++ (sa ++ r) = startByte :: (ia ++ [endByte] ++ (sa ++ r)) := by simp [tokText]
      unfold litOf
      rw [hst]
      simp only [if_true]
      rw [← hst, splitTok_param hia.2]
      simp only
      exact leadLit_append_plain hsa.1 r
    · rw [P11.vkey_param ia sa hia]; simp [tokText]
    · rintro rfl
      unfold P11.Closed
      rw [← List.cons_append, List.getLast?_append]
      rfl
    · intro e; simp [tokText] at e

end Mux.P15
