/-
  Mux.Ties — side conditions about the facts regenerated from the Go source (`Mux.Generated.Facts`,
  rewritten by factgen on every check run).  Each theorem is closed by `decide` (kernel evaluation);
  when the source changes a fact, the corresponding obligation stops checking and the property that
  relies on it is reported (DESIGN §5.2).
-/
import Mux.Generated.Facts
import Mux.Model.Ctx
namespace Mux.Ties
open Mux Mux.Facts

/-! ## Constants the model uses -/

theorem indexesSize_tie : Facts.indexesSize = some Mux.indexesSize := by decide
theorem destroyMaxSize_tie : Facts.destroyMaxSize = some Mux.destroyMaxSize := by decide
theorem startByte_tie : Facts.startByte = some Mux.startByte.toNat := by decide +kernel
theorem endByte_tie : Facts.endByte = some Mux.endByte.toNat := by decide +kernel
theorem separatorByte_tie : Facts.separatorByte = some Mux.separatorByte.toNat := by decide +kernel
theorem ignoreByte_tie : Facts.ignoreByte = some Mux.ignoreByte.toNat := by decide +kernel
theorem methodNotAllowed_tie : Facts.methodNotAllowedIsEmpty = true ∧ Mux.mNotAllowed = [] := by decide

/-- The `Methods` table of the source is the model's table, in the same order (the bit of a method
is its position), and `AnyMethods` cuts off exactly the last three: TRACE, HEAD, OPTIONS. -/
theorem methods_tie : (Facts.methods.map (fun l => l.map (fun s => s.toUTF8.toList))) = some Mux.methodsTable := by decide +kernel
theorem anyCut_tie : Facts.anyCut = some 3 ∧ Mux.anyMethods = Mux.methodsTable.take 6 := by decide
theorem methods_nodup : Mux.methodsTable.Nodup := by decide
theorem reserved_last : Mux.methodsTable.drop 6 = [Mux.mTRACE, Mux.mHEAD, Mux.mOPTIONS] := by decide

/-- The kind order `String < Interceptor < Regexp < Named` is the order of the Go iota block. -/
theorem kindOrder_tie : Facts.kindOrder = some ["String", "Interceptor", "Regexp", "Named"] := by decide
theorem kindRank_tie : Kind.str.rank = 0 ∧ Kind.icpt.rank = 1 ∧ Kind.rx.rank = 2 ∧ Kind.named.rank = 3 := by decide

/-- `node.priority` is `Type*10` plus at most two increments: the kind dominates. -/
theorem priority_tie : Facts.priorityWeights = some (10, 2) := by decide

/-- Middlewares of a registration come before those of the façade / the router (`slices.Concat(m, x.ms)`). -/
theorem concatOrder_tie : Facts.concatOrder =
    [("Router.Handle", "m,r.ms"), ("Prefix.Handle", "m,p.ms"), ("Resource.Handle", "m,r.ms"),
     ("Prefix.Prefix", "m,p.ms"), ("Prefix.Resource", "m,p.ms")] := by decide

/-! ## C06: lock discipline of the Tree API -/

/-- One pass over the events of an API call: every access to shared tree state lies inside a
critical section, writes inside a write section, acquisitions are not nested (RWMutex is not
re-entrant), and there is exactly ONE critical section (so that the call is atomic). -/
def disciplinedFrom : Option Bool → Nat → List LockEv → Bool
  | st, n, [] => st.isSome ∧ n = 1 ∨ (st.isNone ∧ n = 1)
  | none, n, .acqR :: es => disciplinedFrom (some false) (n + 1) es
  | none, n, .acqW :: es => disciplinedFrom (some true) (n + 1) es
  | some _, _, .acqR :: _ => false
  | some _, _, .acqW :: _ => false
  | _, n, .rel :: es => disciplinedFrom none n es
  | none, _, .read _ :: _ => false
  | none, _, .write _ :: _ => false
  | some w, n, .read _ :: es => disciplinedFrom (some w) n es
  | some true, n, .write _ :: es => disciplinedFrom (some true) n es
  | some false, _, .write _ :: _ => false

def Disciplined (es : List LockEv) : Bool := disciplinedFrom none 0 es

/-- The API the property names: Handle/Add, Remove, Clean, Routes, URL, Handler (ServeHTTP), and the
node helper that handlers call outside of any lock. -/
def lockedApi : List String := ["Tree.Add", "Tree.Remove", "Tree.Clean", "Tree.Routes", "Tree.URL", "Tree.Handler", "node.methodIndexEntity"]

def shapeOf (f : String) : Option (List LockEv) := (Facts.lockShapes.find? (·.1 = f)).bind (·.2)

theorem C06_discipline : ∀ f ∈ lockedApi, (shapeOf f).map Disciplined = some true := by decide

/-- Writers take the write lock, readers the read lock. -/
def firstAcq : List LockEv → Option Bool
  | [] => none
  | .acqW :: _ => some true
  | .acqR :: _ => some false
  | _ :: es => firstAcq es
theorem C06_modes :
    (shapeOf "Tree.Add").bind firstAcq = some true ∧ (shapeOf "Tree.Remove").bind firstAcq = some true ∧
    (shapeOf "Tree.Clean").bind firstAcq = some true ∧ (shapeOf "Tree.Routes").bind firstAcq = some false ∧
    (shapeOf "Tree.URL").bind firstAcq = some false ∧ (shapeOf "Tree.Handler").bind firstAcq = some false := by decide

/-- `AllowHeader`/`Methods` only delegate to the locked helper. -/
theorem C06_helpers : shapeOf "node.AllowHeader" = some [.read "node.methodIndexEntity"] ∧
    shapeOf "node.Methods" = some [.read "node.methodIndexEntity"] := by decide

/-! ## C07: no shared mutable state between instances; the serve path is read-only -/

/-- Every package-level variable is never mutated after initialisation, or is the `sync.Pool`, or is
only touched under a package-level lock. -/
theorem C07_globals : ∀ g ∈ Facts.globals, g.mutatedIn = [] ∨ g.isSyncPool = true ∨ g.guarded = true := by decide

/-- No function statically reachable from `Router.ServeHTTP` / `Group.ServeHTTP` (matcher
combinators included) writes to router, tree, node, segment, CORS, matcher or group state. -/
theorem C07_readonly : Facts.serveWrites = [] := by decide

/-- The serve path is what the model mirrors: dispatch, CORS, matchers, the context. -/
theorem C07_reach : ∀ f ∈ ["Router.ServeHTTP", "Router.serveContext", "Tree.Handler", "node.matchChildren", "Segment.Match",
    "cors.handle", "Group.ServeHTTP", "Hosts.Match", "pathVersion.Match", "headerVersion.Match"], f ∈ Facts.serveReach := by decide

/-! ## C05: inventory of fault sites the model mirrors with explicit faults -/

/-- (index expressions, slice expressions, type assertions, panic calls) per function, as they were
when the model's `Err.fault` sites were written. A new unchecked site changes a count. -/
theorem C05_faultSites : Facts.faultSites = [
    ("internal/syntax.Interceptors.NewSegment", some (3, 8, 0, 0)),
    ("internal/syntax.Interceptors.Split", some (4, 0, 0, 0)),
    ("internal/syntax..splitString", some (0, 3, 0, 0)),
    ("internal/syntax.Segment.cleanName", some (1, 1, 0, 0)),
    ("internal/syntax.Segment.Match", some (5, 8, 0, 0)),
    ("internal/syntax..longestPrefix", some (3, 0, 0, 0)),
    ("internal/syntax.Segment.Split", some (0, 2, 0, 0)),
    ("internal/syntax.Segment.Valid", some (2, 0, 0, 0)),
    ("internal/tree.node.matchChildren", some (4, 0, 0, 0)),
    ("internal/tree.node.buildIndexes", some (2, 0, 0, 0)),
    ("internal/tree.node.checkAmbiguous", some (1, 2, 0, 0)),
    ("internal/tree.Tree.Handler", some (3, 0, 0, 0)),
    (".Hosts.Match", some (0, 3, 0, 0)),
    ("..validOptionalPort", some (1, 1, 0, 0)),
    (".pathVersion.Match", some (0, 1, 0, 0)),
    ("..NewPathVersion", some (3, 0, 0, 1)),
    (".headerVersion.Match", some (1, 0, 0, 0)),
    (".cors.handle", some (0, 0, 0, 0)),
    (".cors.headerIsAllowed", some (0, 0, 0, 0))] := by decide

end Mux.Ties
