/- Umbrella: all regenerated-fact obligations (one module per property family, so that a changed fact only
   stops the obligations of the properties that rely on it). -/
import Mux.Ties.Consts
import Mux.Ties.C05
import Mux.Ties.C06
import Mux.Ties.C07
import Mux.Ties.C09
import Mux.Ties.C16
import Mux.Ties.C17
