/-
  Mux.Spec.Resolve — the documented resolution procedure of C02 as an executable, TREE-FREE reference
  resolver (DESIGN §8 C02; the Lean twin of `adm`/`match_group` in `bin/judges.py`).

  It works on the list `R` of *remaining pattern texts* (each paired with the route it belongs to) and
  returns ALL admissible outcomes `(route pattern, parameters)`:

  * remainders are grouped by `keyOf`: a literal remainder by its first byte, a remainder starting
    with a `{token}` by the token text and the first literal byte that follows it (or none);
  * the text a group consumes (`RGroup.value`) is the token (empty for a literal group) followed by the
    longest common literal continuation `σ` of its members — a literal never runs into a `{`;
  * kinds are tried in the order literal, interceptor, regexp, named; the first kind for which some
    group succeeds decides (same-kind groups: any of them — freedom 1);
  * a group succeeds when its text matches the front of the path under the per-segment rule
    `Seg.match` of `Mux.Model.Syntax` (literal: prefix; named/interceptor: FIRST position where `σ`
    occurs and the constraint accepts the text before it, or the whole rest for a pattern-final token;
    regexp: leftmost-first match of `(rule)` followed by `σ` — characterised by `C02_shortest*`) and
    the resolver succeeds on the members with that text stripped;  a failed group is abandoned, never
    retried with a longer capture;
  * when the path is used up, the routes whose remainder is empty are admissible as well (freedom 2:
    "empty remainder vs. a parameter group matching the empty rest").

  Core Lean only.  Nothing here mentions `Node`.
-/
import Mux.Model.Syntax
namespace Mux.Spec
open Mux

/-- A remaining pattern text together with the route (full pattern) it belongs to. -/
abbrev Rem := Bytes × Bytes

/-- The literal text at the front of a remainder: everything before the first `{`. -/
def leadLit : Bytes → Bytes
  | [] => []
  | b :: r => if b = startByte then [] else b :: leadLit r

/-- Longest common prefix of two texts. -/
def lcp2 : Bytes → Bytes → Bytes
  | a :: s, b :: t => if a = b then a :: lcp2 s t else []
  | _, _ => []

/-- Longest common prefix of a list of texts (`[]` for no text). -/
def lcp : List Bytes → Bytes
  | [] => []
  | [s] => s
  | s :: ss => lcp2 s (lcp ss)

/-- `{token}` at the front of a remainder and what follows it (cut after the first `}`). -/
def splitTok (r : Bytes) : Option (Bytes × Bytes) :=
  match indexByte endByte r with
  | some e => some (r.take (e + 1), r.drop (e + 1))
  | none => none

/-- Group key: `(token, first literal byte after it)`; the token is empty for a literal remainder. -/
abbrev Key := Bytes × Option UInt8

def keyOf (r : Bytes) : Option Key :=
  match r with
  | [] => none
  | b :: _ =>
    if b = startByte then
      match splitTok r with
      | some (tok, after) => some (tok, (leadLit after).head?)
      | none => none
    else some ([], some b)

/-- The literal text of a remainder that takes part in the common continuation of its group. -/
def litOf (r : Bytes) : Bytes :=
  match r with
  | [] => []
  | b :: _ =>
    if b = startByte then
      match splitTok r with
      | some (_, after) => leadLit after
      | none => []
    else leadLit r

/-- Keep one copy of every element (the last one). -/
def dedup {α : Type} [DecidableEq α] : List α → List α
  | [] => []
  | a :: l => if a ∈ l then dedup l else a :: dedup l

/-- A group: the text it consumes and its members with that text stripped. -/
structure RGroup where
  value : Bytes
  members : List Rem
  deriving Repr

def mkGroup (R : List Rem) (k : Key) : RGroup :=
  let ms := R.filter (fun r => keyOf r.1 = some k)
  let value := k.1 ++ lcp (ms.map (fun r => litOf r.1))
  { value := value, members := ms.map (fun r => (r.1.drop value.length, r.2)) }

/-- The groups the remainders `R` form. -/
def groups (R : List Rem) : List RGroup :=
  (dedup (R.filterMap (fun r => keyOf r.1))).map (mkGroup R)

/-- The parameters after a group's capture: appended unless the segment is literal or `-`flagged. -/
def addParam (s : Seg) (cap : Bytes) (ps : AMap Bytes) : AMap Bytes :=
  if s.kind ≠ .str ∧ ¬ s.ignoreName then ps ++ [(s.name, cap)] else ps

/-- One group of kind `k`: match its text at the front of the path, then resolve the members. -/
def tryGroup (env : Env) (ic : Interceptors) (rec : List Rem → Bytes → AMap Bytes → List (Bytes × AMap Bytes))
    (k : Kind) (path : Bytes) (ps : AMap Bytes) (g : RGroup) : List (Bytes × AMap Bytes) :=
  match newSegment ic g.value with
  | .ok s =>
    if s.kind = k then
      match s.match env ic path with
      | .yes cap rest => rec g.members rest (addParam s cap ps)
      | _ => []
    else []
  | .error _ => []

/-- The resolver with fuel (one unit per group text consumed). -/
def resolveFuel (env : Env) (ic : Interceptors) : Nat → List Rem → Bytes → AMap Bytes → List (Bytes × AMap Bytes)
  | 0, _, _, _ => []
  | fuel + 1, R, path, ps =>
    let ended := if path = [] then (R.filter (fun r => r.1 = [])).map (fun r => (r.2, ps)) else []
    let byKind (k : Kind) := (groups R).flatMap (tryGroup env ic (resolveFuel env ic fuel) k path ps)
    let lit := byKind .str
    if lit ≠ [] then lit else
    let a := byKind .icpt
    if a ≠ [] then a ++ ended else
    let b := byKind .rx
    if b ≠ [] then b ++ ended else
    byKind .named ++ ended

/-- Fuel that suffices: every step strips at least one byte from every member. -/
def maxLen (R : List Rem) : Nat := (R.map (fun r => r.1.length)).foldr max 0

/-- All admissible outcomes for the remainders `R`. -/
def resolveRems (env : Env) (ic : Interceptors) (R : List Rem) (path : Bytes) (ps : AMap Bytes) : List (Bytes × AMap Bytes) :=
  resolveFuel env ic (maxLen R + 1) R path ps

/-- **The reference resolver**: all admissible outcomes `(route, parameters)` of `path` for the route
patterns `rs`. -/
def resolveAll (env : Env) (ic : Interceptors) (rs : List Bytes) (path : Bytes) : List (Bytes × AMap Bytes) :=
  resolveRems env ic (rs.map (fun p => (p, p))) path []

/-- `Admissible`: the outcome `o` (`none` = 404) is one the documented procedure allows. -/
def Admissible (env : Env) (ic : Interceptors) (rs : List Bytes) (path : Bytes) : Option (Bytes × AMap Bytes) → Prop
  | none => resolveAll env ic rs path = []
  | some o => o ∈ resolveAll env ic rs path

instance (env : Env) (ic : Interceptors) (rs : List Bytes) (path : Bytes) (o : Option (Bytes × AMap Bytes)) :
    Decidable (Admissible env ic rs path o) := by
  cases o <;> unfold Admissible <;> infer_instance

end Mux.Spec
