/-
  Mux.Spec.Table — the abstract route table of C03/C04 (specification side, executable, core only).

  A table maps each live pattern to the list of methods registered for it BY HAND (HEAD, OPTIONS and
  the 405 key `""` are derived, never stored).  `specRun` replays a history on the table, following the
  implementation's accept/reject verdict for `add` (whether an ambiguous pattern is accepted depends
  on the shape of the tree and is deliberately not predicted here).  `tableOf` reads the table off a
  tree: it is the abstraction function of the refinement `C03_table`.
-/
import Mux.Spec.Defs
namespace Mux

namespace Spec

/-- live pattern ↦ hand-registered methods (unique patterns, non-empty duplicate-free lists). -/
abbrev Table := List (Bytes × List Bytes)

/-- `(p, m)` is a live pattern/method pair. -/
def Table.has (tb : Table) (p m : Bytes) : Prop := ∃ ms, (p, ms) ∈ tb ∧ m ∈ ms

/-- The patterns of the table. -/
def Table.patterns (tb : Table) : List Bytes := tb.map (·.1)

/-- The methods of a pattern (`[]` when the pattern is not live). -/
def Table.methodsOf (tb : Table) (p : Bytes) : List Bytes := ((tb.find? (·.1 = p)).map (·.2)).getD []

/-- `Handle(pattern, h, methods...)` once it has been accepted: the methods (all of `AnyMethods` when
none is given) are appended to the pattern's entry, which is created when missing. -/
def add (tb : Table) (pattern : Bytes) (methods : List Bytes) : Table :=
  let ms := if methods.isEmpty then anyMethods else methods
  if tb.any (·.1 = pattern) then tb.map (fun e => if e.1 = pattern then (e.1, e.2 ++ ms) else e)
  else tb ++ [(pattern, ms)]

/-- `Remove(pattern, methods...)`: no method = delete the pattern; otherwise erase the listed methods
(OPTIONS, HEAD and `""` are never stored, so listing them changes nothing) and delete the pattern
when no method remains. -/
def remove (tb : Table) (pattern : Bytes) (methods : List Bytes) : Table :=
  if methods.isEmpty then tb.filter (fun e => e.1 ≠ pattern)
  else
    (tb.map (fun e => if e.1 = pattern then (e.1, e.2.filter (fun m => !(methods.contains m))) else e)).filter
      (fun e => !(e.2.isEmpty))

/-- `Clean(prefix)`: delete the patterns that have `pre` as a textual prefix. -/
def clean (tb : Table) (pre : Bytes) : Table := tb.filter (fun e => !(hasPrefix e.1 pre))

/-- The method set a live pattern answers with: the hand-registered methods, HEAD when GET is among
them, OPTIONS, TRACE when a TRACE handler is configured — sorted, without repetitions. -/
def methodSet (hasTrace : Bool) (ms : List Bytes) : List Bytes :=
  sortBytes (methodsTable.filter (fun m =>
    ms.contains m || (m == mHEAD && ms.contains mGET) || m == mOPTIONS || (hasTrace && m == mTRACE)))

/-- `Routes()` of a table. -/
def routes (hasTrace : Bool) (tb : Table) : List (Bytes × List Bytes) :=
  ([42], mOPTIONS :: (if hasTrace then [mTRACE] else [])) :: tb.map (fun e => (e.1, methodSet hasTrace e.2))

/-- Number of live patterns on which `m` is registered. -/
def count (tb : Table) (m : Bytes) : Nat := (tb.filter (fun e => e.2.contains m)).length

/-- One step of the specification, given the implementation's state `t` before the step (only the
accept/reject verdict of `Tree.add` is read off it). -/
def stepWith (t : Tree) (tb : Table) : TOp → Table
  | .add p h ms methods => match t.add p h ms methods with
    | .ok _ => add tb p methods
    | .error _ => tb
  | .remove p methods => remove tb p methods
  | .clean pre => clean tb pre
  | .use _ => tb

end Spec

/-- Replay a history on the abstract table, alongside the tree. -/
def specRunFrom : Tree → Spec.Table → List TOp → Spec.Table
  | _, tb, [] => tb
  | t, tb, op :: ops => specRunFrom (t.step op) (Spec.stepWith t tb op) ops

/-- The abstract table of the history `ops` started on the tree `t0` (normally `Tree.new …`). -/
def specRun (t0 : Tree) (ops : List TOp) : Spec.Table := specRunFrom t0 [] ops

/-- The keys of a handler map that were registered by hand. -/
def regKeys (hs : AMap Handler) : List Bytes :=
  hs.keys.filter (fun k => k ≠ mHEAD ∧ k ≠ mOPTIONS ∧ k ≠ mNotAllowed)

/-- `(pattern, handlers)` of every node of the forest `cs` that has handlers, depth first. -/
def liveL (cs : List Node) : List (Bytes × AMap Handler) :=
  ((nodesL cs).filter (fun n => !(n.handlers.isEmpty))).map (fun n => (n.pattern, n.handlers))

/-- The abstraction function: the table read off the tree (every node below the root that has
handlers, with its hand-registered methods). -/
def tableOf (t : Tree) : Spec.Table := (liveL t.root.children).map (fun e => (e.1, regKeys e.2))

/-- Braces are balanced and not nested: the well-formedness of a pattern's text that the tree
invariants of C03 need (a parameter name or rule containing `{`, or literal text containing a brace,
is outside it). -/
def wfBraces : Bool → Bytes → Bool
  | inB, [] => !inB
  | false, b :: r => if b = startByte then wfBraces true r else if b = endByte then false else wfBraces false r
  | true, b :: r => if b = endByte then wfBraces false r else if b = startByte then false else wfBraces true r

def WfPattern (p : Bytes) : Bool := wfBraces false p

/-- Every pattern a history registers is well-formed. -/
def TOp.wf : TOp → Bool
  | .add p _ _ _ => WfPattern p
  | _ => true

end Mux
