/-
  Mux.Spec.Judge — executable judges (L0) evaluated on observation lines.
  (stub; filled in per property)
-/
import Mux.Model.Call
namespace Mux.Spec

partial def judgeStream (h : IO.FS.Stream) (out : IO.FS.Stream) (_prop : String) : IO Unit := do
  let line ← h.getLine
  if line.isEmpty then return ()
  out.putStrLn "pass"
  judgeStream h out _prop

end Mux.Spec
