/-
  Mux.Spec.UrlText — C10 "substitute parameters and nothing else", read off the pattern BYTES.

  A model-independent specification of non-strict URL building: one left-to-right scan of the pattern text.
  Outside a token every byte is copied; a `{` opens a token, whose body runs to the next `}`; the token is
  replaced by `params[name]`, where `name` is the body up to its first `:` with ONE leading `-` dropped.  A
  `{` that is never closed is literal text (as are `}` outside a token and `{` inside one: the body is
  whatever stands between the opening `{` and the next `}`).  Nothing here mentions `splitString`,
  `newSegment` or `Seg`.
-/
import Mux.Model.Basic
namespace Mux.Spec

/-- The parameter name of a token body: the text before the first `:` (all of it when there is none),
without one leading `-`. -/
def tokName (body : Bytes) : Bytes :=
  match body.takeWhile (· ≠ separatorByte) with
  | [] => []
  | b :: r => if b = ignoreByte then r else b :: r

/-- The scan.  State `none`: outside a token; `some body`: inside `{body…`, `body` read so far.
Result `none`: some token's name has no value in `ps`. -/
def substFrom (ps : AMap Bytes) : Option Bytes → Bytes → Option Bytes
  | none, [] => some []
  | none, b :: r => if b = startByte then substFrom ps (some []) r else (substFrom ps none r).map (b :: ·)
  | some body, [] => some (startByte :: body)
  | some body, b :: r =>
    if b = endByte then
      match ps.get? (tokName body), substFrom ps none r with
      | some v, some u => some (v ++ u)
      | _, _ => none
    else substFrom ps (some (body ++ [b])) r

/-- The pattern text with every token `{name…}` replaced by `ps[name]`, literal text kept in place. -/
def substText (ps : AMap Bytes) (p : Bytes) : Option Bytes := substFrom ps none p

end Mux.Spec
