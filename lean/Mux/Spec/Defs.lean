/-
  Mux.Spec.Defs — vocabulary shared by the property theorems: histories, reachability, predicates
  over all nodes of a tree, instantiation of a pattern, the denotation of the regexp dialect.
  Nothing here is used by the driver; these are the specification-side definitions.
-/
import Mux.Model.Call
namespace Mux

/-! ## Histories -/

/-- One operation on a tree. `add` carries the complete middleware list (`slices.Concat(m, r.ms)`). -/
inductive TOp where
  | add (pattern : Bytes) (h : Handler) (ms : List Nat) (methods : List Bytes)
  | remove (pattern : Bytes) (methods : List Bytes)
  | clean (pre : Bytes)
  | use (ms : List Nat)
  deriving Repr

/-- A failing operation (rejected Handle, or a modelled runtime fault) leaves the tree as it was. -/
def Tree.step (t : Tree) : TOp → Tree
  | .add p h ms methods => match t.add p h ms methods with
    | .ok t' => t'
    | .error _ => t
  | .remove p methods => match t.remove p methods with
    | .ok t' => t'
    | .error _ => t
  | .clean pre => match t.clean pre with
    | .ok t' => t'
    | .error _ => t
  | .use ms => t.applyMiddleware ms

def Tree.run (t : Tree) (ops : List TOp) : Tree := ops.foldl Tree.step t

/-- Router-level operations (what the public API offers). -/
inductive ROp where
  | handle (pattern : Bytes) (h : Nat) (m : List Nat) (methods : List Bytes)
  | remove (pattern : Bytes) (methods : List Bytes)
  | clean (pre : Bytes)
  | use (m : List Nat)
  deriving Repr

def Router.step (r : Router) : ROp → Router
  | .handle p h m methods => match r.handle p h m methods with
    | .ok r' => r'
    | .error _ => r
  | .remove p methods => match r.remove p methods with
    | .ok r' => r'
    | .error _ => r
  | .clean pre => match r.clean pre with
    | .ok r' => r'
    | .error _ => r
  | .use m => r.use m

def Router.run (r : Router) (ops : List ROp) : Router := ops.foldl Router.step r

/-! ## Predicates over every node of a tree -/

mutual
/-- `P` holds of the node and of every node below it. -/
def Node.All (P : Node → Prop) : Node → Prop
  | .mk s p mi hs idx cs => P (.mk s p mi hs idx cs) ∧ AllL P cs
def AllL (P : Node → Prop) : List Node → Prop
  | [] => True
  | c :: cs => Node.All P c ∧ AllL P cs
end

mutual
/-- All nodes of a subtree, the root of the subtree first. -/
def Node.nodes : Node → List Node
  | .mk s p mi hs idx cs => .mk s p mi hs idx cs :: nodesL cs
def nodesL : List Node → List Node
  | [] => []
  | c :: cs => Node.nodes c ++ nodesL cs
end

/-- `chain n m segs`: `m` is reached from `n` by descending through children whose segments are
`segs` (in order). -/
inductive Chain : Node → List Seg → Node → Prop where
  | nil (n : Node) : Chain n [] n
  | cons {n c m : Node} {segs : List Seg} : c ∈ n.children → Chain c segs m → Chain n (c.seg :: segs) m

/-! ## Instantiating segments -/

/-- The text a segment contributes to a request path when its parameter has the value `v`. -/
def Seg.inst (s : Seg) (v : Bytes) : Bytes :=
  match s.kind with
  | .str => s.value
  | .rx => v ++ s.suffix
  | _ => if s.endpoint then v else v ++ s.suffix

/-- The path obtained from a chain of segments and one value per segment (ignored for literals). -/
def instChain : List (Seg × Bytes) → Bytes
  | [] => []
  | (s, v) :: rest => s.inst v ++ instChain rest

/-- The parameters a chain captures: every non-literal segment without the `-` flag, in order. -/
def captures : List (Seg × Bytes) → List (Bytes × Bytes)
  | [] => []
  | (s, v) :: rest => if s.kind ≠ .str ∧ ¬ s.ignoreName then (s.name, v) :: captures rest else captures rest

/-! ## Denotation of the regexp dialect -/

/-- `Re.Denotes r s`: the whole of `s` is matched by `r` (the usual language semantics). -/
inductive Re.Denotes : Re → Bytes → Prop where
  | eps : Re.Denotes .eps []
  | cls {c : Cls} {b : UInt8} : c.has b = true → Re.Denotes (.cls c) [b]
  | seq {a b : Re} {s t : Bytes} : Re.Denotes a s → Re.Denotes b t → Re.Denotes (.seq a b) (s ++ t)
  | altL {a b : Re} {s : Bytes} : Re.Denotes a s → Re.Denotes (.alt a b) s
  | altR {a b : Re} {s : Bytes} : Re.Denotes b s → Re.Denotes (.alt a b) s
  | starNil {c : Cls} : Re.Denotes (.star c) []
  | starCons {c : Cls} {b : UInt8} {s : Bytes} : c.has b = true → Re.Denotes (.star c) s → Re.Denotes (.star c) (b :: s)
  | plus {c : Cls} {b : UInt8} {s : Bytes} : c.has b = true → Re.Denotes (.star c) s → Re.Denotes (.plus c) (b :: s)
  | optNone {r : Re} : Re.Denotes (.opt r) []
  | optSome {r : Re} {s : Bytes} : Re.Denotes r s → Re.Denotes (.opt r) s

/-- "The value satisfies the segment's constraint": true for named segments, the interceptor
function for interceptors, the denotation of the rule for regexps. -/
def Seg.Satisfies (env : Env) (ic : Interceptors) (s : Seg) (v : Bytes) : Prop :=
  match s.kind with
  | .str => True
  | .named => True
  | .icpt => s.accepts env ic v = true
  | .rx => Re.Denotes s.re v

end Mux
