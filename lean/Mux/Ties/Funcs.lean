/-
  Mux.Ties.Funcs — TRANSLATED-SOURCE TIES. `Mux/Generated/Funcs.lean` is written by factgen/go2lean.go from the current Go
  text of a few leaf functions on every run; each theorem below states that the translation returns, for EVERY input, exactly
  what the hand-written model function returns, and never faults (`= .ok …`).  Proved with loop invariants (`mvcgen`).

  A change of one of these Go functions changes the generated definition and its theorem stops checking.  Like the shape
  facts of `Mux.Ties.Info` this module is built as a separate target and is INFORMATIONAL: a harmless rewrite (another loop
  form) breaks the proof while the behaviour is unchanged, so bin/check records it, runs the wide failing-input search, and
  reports a violation only with a failing input (the differential tie of the same functions — ops u-match, hosts-match,
  u-lp — runs in any case).  On the unchanged tree it upgrades the tie of these functions from sampled to proved.
-/
import Mux.Generated.Funcs
import Mux.Model.Syntax
import Mux.Model.Router
open Std.Do
namespace Mux.Ties.Funcs
open Mux

set_option mvcgen.warning false

/-- `MatchAny`. -/
theorem matchAny_tie (p : Bytes) : Gen.matchAny p = .ok (Mux.matchAny p) := by
  simp [Gen.matchAny, Mux.matchAny, Go.len, pure, Except.pure]

/-- `MatchDigit`: the translated loop (early return on the first byte outside `0-9`) is the model's `all … && length > 0`. -/
theorem matchDigit_tie (p : Bytes) : Gen.matchDigit p = .ok (Mux.matchDigit p) := by
  generalize h : Gen.matchDigit p = r
  apply Except.of_wp_eq h (fun r => r = .ok (Mux.matchDigit p))
  mvcgen [Gen.matchDigit]
  case inv1 =>
    exact Invariant.withEarlyReturnNewDo
      (onReturn := fun ret _ => ⌜ret = false ∧ p.all (fun c => 48 ≤ c ∧ c ≤ 57) = false⌝)
      (onContinue := fun xs _ => ⌜xs.prefix.all (fun c => 48 ≤ c ∧ c ≤ 57) = true⌝)
  all_goals (try mleave)
  all_goals (simp_all [Mux.matchDigit, Go.len]) <;> grind

/-- `MatchWord`. -/
theorem matchWord_tie (p : Bytes) : Gen.matchWord p = .ok (Mux.matchWord p) := by
  generalize h : Gen.matchWord p = r
  apply Except.of_wp_eq h (fun r => r = .ok (Mux.matchWord p))
  mvcgen [Gen.matchWord]
  case inv1 =>
    exact Invariant.withEarlyReturnNewDo
      (onReturn := fun ret _ => ⌜ret = false ∧ p.all (fun c => (48 ≤ c ∧ c ≤ 57) ∨ (97 ≤ c ∧ c ≤ 122) ∨ (65 ≤ c ∧ c ≤ 90)) = false⌝)
      (onContinue := fun xs _ => ⌜xs.prefix.all (fun c => (48 ≤ c ∧ c ≤ 57) ∨ (97 ≤ c ∧ c ≤ 122) ∨ (65 ≤ c ∧ c ≤ 90)) = true⌝)
  all_goals (try mleave)
  all_goals (simp_all [Mux.matchWord, Go.len]) <;> grind

/-- `validOptionalPort`: empty, or `:` followed by digits only; the index `port[0]` and the slice `port[1:]` are in range. -/
theorem validOptionalPort_tie (p : Bytes) : Gen.validOptionalPort p = .ok (Mux.validOptionalPort p) := by
  generalize h : Gen.validOptionalPort p = r
  apply Except.of_wp_eq h (fun r => r = .ok (Mux.validOptionalPort p))
  mvcgen [Gen.validOptionalPort]
  case inv1 =>
    exact Invariant.withEarlyReturnNewDo
      (onReturn := fun ret _ => ⌜ret = false ∧ Mux.validOptionalPort p = false⌝)
      (onContinue := fun xs _ => ⌜xs.prefix.all (fun c => 48 ≤ c ∧ c ≤ 57) = true⌝)
  all_goals (try mleave)
  all_goals (cases p <;> simp_all [Mux.validOptionalPort, Go.len] <;> try grind)

/-! ### `longestPrefix`: the index loop with its three mutable variables against the model's structural scan `lpLoop` -/

theorem drop_cons_of_lt (a : Bytes) (k : Nat) (h : k < a.length) : a.drop k = a[k] :: a.drop (k + 1) := by
  exact List.drop_eq_getElem_cons h

theorem range_split {n : Nat} {pref suff : List Nat} {cur : Nat}
    (h : [0:n].toList = pref ++ cur :: suff) : cur = pref.length ∧ cur < n := by
  have h1 : [0:n].toList = List.range' 0 n := by simp [Std.Legacy.Range.toList]
  rw [h1] at h
  have h2 := congrArg List.length h
  simp at h2
  have h3 : (List.range' 0 n)[pref.length]? = some cur := by rw [h]; simp
  rw [List.getElem?_range'] at h3
  · simp at h3; omega
  · omega


/-- one step of the model's scan, stated with indices (the translated loop walks indices, the model walks the lists) -/
theorem lpLoop_step (a b : Bytes) (k : Nat) (ha : k < a.length) (hb : k < b.length) (si ei : Int) (ib : Bool) :
    lpLoop (a.drop k) (b.drop k) k si ei ib =
      if a[k] ≠ b[k] then (if ib ∨ ei + 1 = (k : Int) then si else (k : Int))
      else if a[k] = startByte then lpLoop (a.drop (k + 1)) (b.drop (k + 1)) (k + 1) (if ib then si else (k : Int)) ei true
      else if a[k] = endByte then lpLoop (a.drop (k + 1)) (b.drop (k + 1)) (k + 1) si k false
      else lpLoop (a.drop (k + 1)) (b.drop (k + 1)) (k + 1) si ei ib := by
  rw [drop_cons_of_lt a k ha, drop_cons_of_lt b k hb]
  simp only [lpLoop]

theorem lpLoop_end (a b : Bytes) (k : Nat) (h : a.length ≤ k ∨ b.length ≤ k) (si ei : Int) (ib : Bool) :
    lpLoop (a.drop k) (b.drop k) k si ei ib = if ei = (k : Int) - 1 then si else (k : Int) := by
  rcases h with h | h
  · rw [List.drop_eq_nil_of_le h]; simp [lpLoop]
  · rw [List.drop_eq_nil_of_le h]
    cases a.drop k <;> simp [lpLoop]

theorem longestPrefix_tie (a b : Bytes) : Gen.longestPrefix a b = .ok (Mux.longestPrefix a b) := by
  generalize h : Gen.longestPrefix a b = r
  apply Except.of_wp_eq h (fun r => r = .ok (Mux.longestPrefix a b))
  mvcgen [Gen.longestPrefix]
  -- one invariant per copy of the loop (the `if len(s2) < l` in front of it duplicates the continuation; `min` does not)
  all_goals (first
    | exact Invariant.withEarlyReturnNewDo
        (onReturn := fun ret _ => ⌜ret = Mux.longestPrefix a b⌝)
        (onContinue := fun xs st => ⌜(st.2.2 = 123 ∨ st.2.2 = 125) ∧
          Mux.longestPrefix a b = lpLoop (a.drop xs.prefix.length) (b.drop xs.prefix.length) xs.prefix.length st.1 st.2.1 (st.2.2 == 123)⌝)
    | skip)
  all_goals (try mleave)
  all_goals (
    try (have hr := range_split ‹_ = _ ++ _ :: _›)
    try simp +zetaDelta only [Go.len, Int.toNat_natCast, List.getElem?_eq_some_iff, decide_eq_true_eq] at *
    try grind [lpLoop_step, lpLoop_end, Mux.longestPrefix, startByte, endByte])

end Mux.Ties.Funcs

