/-
  Mux.Ties.C06 — side conditions about the facts regenerated from the Go source (`Mux.Generated.Facts`,
  rewritten by factgen on every check run), closed by `decide` (kernel evaluation).  When the source changes a
  fact, the obligation stops checking and the properties that rely on it are reported (DESIGN §5.2).
-/
import Mux.Generated.Facts
import Mux.Model.Ctx
namespace Mux.Ties
open Mux Mux.Facts

/-! ## C06: lock discipline of the Tree API -/

/-- One pass over the events of an API call: every access to shared tree state lies inside a
critical section, writes inside a write section, acquisitions are not nested (RWMutex is not
re-entrant), and there is exactly ONE critical section (so that the call is atomic). -/
def disciplinedFrom : Option Bool → Nat → List LockEv → Bool
  | st, n, [] => st.isSome ∧ n = 1 ∨ (st.isNone ∧ n = 1)
  | none, n, .acqR :: es => disciplinedFrom (some false) (n + 1) es
  | none, n, .acqW :: es => disciplinedFrom (some true) (n + 1) es
  | some _, _, .acqR :: _ => false
  | some _, _, .acqW :: _ => false
  | _, n, .rel :: es => disciplinedFrom none n es
  | none, _, .read _ :: _ => false
  | none, _, .write _ :: _ => false
  | some w, n, .read _ :: es => disciplinedFrom (some w) n es
  | some true, n, .write _ :: es => disciplinedFrom (some true) n es
  | some false, _, .write _ :: _ => false

def Disciplined (es : List LockEv) : Bool := disciplinedFrom none 0 es

/-- The API the property names: Handle/Add, Remove, Clean, Routes, URL, Handler (ServeHTTP), and the
node helper that handlers call outside of any lock. -/
def lockedApi : List String := ["Tree.Add", "Tree.Remove", "Tree.Clean", "Tree.Routes", "Tree.URL", "Tree.Handler", "node.methodIndexEntity"]

def shapeOf (f : String) : Option (List LockEv) := (Facts.lockShapes.find? (·.1 = f)).bind (·.2)

theorem C06_discipline : ∀ f ∈ lockedApi, (shapeOf f).map Disciplined = some true := by decide

/-- Writers take the write lock, readers the read lock. -/
def firstAcq : List LockEv → Option Bool
  | [] => none
  | .acqW :: _ => some true
  | .acqR :: _ => some false
  | _ :: es => firstAcq es
theorem C06_modes :
    (shapeOf "Tree.Add").bind firstAcq = some true ∧ (shapeOf "Tree.Remove").bind firstAcq = some true ∧
    (shapeOf "Tree.Clean").bind firstAcq = some true ∧ (shapeOf "Tree.Routes").bind firstAcq = some false ∧
    (shapeOf "Tree.URL").bind firstAcq = some false ∧ (shapeOf "Tree.Handler").bind firstAcq = some false := by decide

/-- `AllowHeader`/`Methods` only delegate to the locked helper. -/
theorem C06_helpers : shapeOf "node.AllowHeader" = some [.read "node.methodIndexEntity"] ∧
    shapeOf "node.Methods" = some [.read "node.methodIndexEntity"] := by decide


end Mux.Ties
