/-
  Mux.Ties.C17 — the order of the calls in `Tree.Add` and `Router.serveContext`, regenerated from the Go source.
-/
import Mux.Generated.Facts
namespace Mux.Ties
open Mux.Facts

/-- `Tree.Add` runs every validation before the first call that mutates the tree: ambiguity check, syntax (`Split`),
method checks, and only then `getNode` (creates/splits nodes) and `addMethods` — the order of the model's `Tree.add`
(checkAmb → split → checkMethods → getNode → addMethods), on which `C17_validated_ok` ("add cannot fail after its
validation passed") rests. -/
theorem C17_add_order : Facts.addCallOrder = some ["checkAmbiguous", "Split", "checkMethods", "getNode", "addMethods"] := by decide

/-- `Router.serveContext`: the deferred recover is installed first, then the tree is asked for the handler, the node is
stored, CORS headers are written for a served route, and the handler is called last; inside the deferred recover there is no second `panic` and no `Destroy` of the context (the
list names the calls of interest only: recover, recoverFunc, panic, Destroy, Handler, SetNode, handle, call — looked up
through helpers of the package) — the order of the model's
`Router.serveContext` / `ServeRes.finish` (C16: the recover surrounds matching and the call; C11/C12: CORS before the
call). -/
theorem C16_serve_order : Facts.serveCallOrder = some ["recover", "recoverFunc", "Handler", "SetNode", "handle", "call"] := by decide

end Mux.Ties
