/-
  Mux.Ties.GoPrelude — the handful of Go operations the translated leaf functions (Mux/Generated/Funcs.lean, written by
  factgen/go2lean.go) are expressed in: `len`, checked indexing and slicing of byte strings in the monad `Except Unit`
  (a Go index/slice fault is `throw ()`), with their specifications for `mvcgen`.
-/
import Std.Tactic.Do
import Mux.Model.Basic
open Std.Do
namespace Mux.Go

abbrev M := Except Unit

def len (s : Bytes) : Int := s.length

def idx (s : Bytes) (i : Int) : M UInt8 :=
  if h : 0 ≤ i ∧ i.toNat < s.length then pure (s[i.toNat]'h.2) else throw ()

def slice (s : Bytes) (lo hi : Int) : M Bytes :=
  if 0 ≤ lo ∧ lo ≤ hi ∧ hi ≤ s.length then pure ((s.take hi.toNat).drop lo.toNat) else throw ()

theorem idx_ok (s : Bytes) (i : Int) (h : 0 ≤ i ∧ i.toNat < s.length) : idx s i = pure (s[i.toNat]'h.2) := by
  simp [idx, h]

theorem slice_ok (s : Bytes) (lo hi : Int) (h : 0 ≤ lo ∧ lo ≤ hi ∧ hi ≤ s.length) :
    slice s lo hi = pure ((s.take hi.toNat).drop lo.toNat) := by simp [slice, h]

set_option linter.unusedVariables false in
@[spec] theorem idx_spec (s : Bytes) (i : Int) :
    ⦃⌜0 ≤ i ∧ i.toNat < s.length⌝⦄ idx s i ⦃⇓ r => ⌜s[i.toNat]? = some r⌝⦄ := by
  mintro h
  mpure h
  rw [idx_ok s i h]
  mvcgen
  simp [h.2]

@[spec] theorem slice_spec (s : Bytes) (lo hi : Int) :
    ⦃⌜0 ≤ lo ∧ lo ≤ hi ∧ hi ≤ s.length⌝⦄ slice s lo hi ⦃⇓ r => ⌜r = (s.take hi.toNat).drop lo.toNat⌝⦄ := by
  mintro h
  mpure h
  rw [slice_ok s lo hi h]
  mvcgen

end Mux.Go
