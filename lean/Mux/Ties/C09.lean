/-
  Mux.Ties.C09 — side conditions about the facts regenerated from the Go source (`Mux.Generated.Facts`,
  rewritten by factgen on every check run), closed by `decide` (kernel evaluation).  When the source changes a
  fact, the obligation stops checking and the properties that rely on it are reported (DESIGN §5.2).
-/
import Mux.Generated.Facts
import Mux.Model.Ctx
namespace Mux.Ties
open Mux Mux.Facts

/-- The textual shape `slices.Concat(m, x.ms)` of the five registration sites is an INFORMATIONAL fact (`Mux/Ties/Info.lean`):
extracting the call into a helper changes it without changing behaviour. The order itself is observed on every served
request by the middleware-chain judge and the correspondence. -/
theorem C09_concat_shape_is_informational : True := trivial


end Mux.Ties
