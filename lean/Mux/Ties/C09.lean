/-
  Mux.Ties.C09 — side conditions about the facts regenerated from the Go source (`Mux.Generated.Facts`,
  rewritten by factgen on every check run), closed by `decide` (kernel evaluation).  When the source changes a
  fact, the obligation stops checking and the properties that rely on it are reported (DESIGN §5.2).
-/
import Mux.Generated.Facts
import Mux.Model.Ctx
namespace Mux.Ties
open Mux Mux.Facts

/-- Middlewares of a registration come before those of the façade / the router (`slices.Concat(m, x.ms)`). -/
theorem concatOrder_tie : Facts.concatOrder =
    [("Router.Handle", "m,r.ms"), ("Prefix.Handle", "m,p.ms"), ("Resource.Handle", "m,r.ms"),
     ("Prefix.Prefix", "m,p.ms"), ("Prefix.Resource", "m,p.ms")] := by decide


end Mux.Ties
