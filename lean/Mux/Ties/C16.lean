/-
  Mux.Ties.C16 — side conditions about the facts regenerated from the Go source (`Mux.Generated.Facts`) for the bundled
  recovery options and the shorthand registration methods, closed by `decide`.
-/
import Mux.Generated.Facts
import Mux.Model.Http
namespace Mux.Ties
open Mux Mux.Facts

/-- Every bundled recovery option answers with `http.Error(w, http.StatusText(status), status)` — the call the model's
`httpErrorActs status (statusTextLen status)` stands for. -/
theorem C16_recovery_shapes : Facts.recoveryShapes =
    [("WithStatusRecovery", "w|http.StatusText(status)|status"), ("WithWriteRecovery", "w|http.StatusText(status)|status"),
     ("WithLogRecovery", "w|http.StatusText(status)|status"), ("WithSLogRecovery", "w|http.StatusText(status)|status")] := by decide

/-- The model's table of `http.StatusText` lengths agrees with the toolchain that builds the harness, on every code 0..599. -/
theorem C16_statusText : Facts.statusTextLens.all (fun e => statusTextLen e.1 = e.2) = true := by decide +kernel

/-- `Get/Post/Delete/Put/Patch` of Router, Prefix and Resource pass the method they are named after to `Handle`; `Any`
passes none (C19: the shorthand methods are `Handle` calls). -/
theorem C19_shorthands : Facts.shorthandMethods =
    (["Router", "Prefix", "Resource"].flatMap fun r =>
      [(r ++ ".Get", "GET"), (r ++ ".Post", "POST"), (r ++ ".Delete", "DELETE"), (r ++ ".Put", "PUT"),
       (r ++ ".Patch", "PATCH"), (r ++ ".Any", "-")]) := by decide

end Mux.Ties
