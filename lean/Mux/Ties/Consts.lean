/-
  Mux.Ties.Consts — side conditions about the facts regenerated from the Go source (`Mux.Generated.Facts`,
  rewritten by factgen on every check run), closed by `decide` (kernel evaluation).  When the source changes a
  fact, the obligation stops checking and the properties that rely on it are reported (DESIGN §5.2).
-/
import Mux.Generated.Facts
import Mux.Model.Ctx
namespace Mux.Ties
open Mux Mux.Facts

/-! ## Constants the model uses -/

-- a constant that factgen finds under its name must have the model's value; a constant it does NOT find (renamed by a
-- refactoring) is recorded by `Mux.Ties.Info` (informational) — the differential tie still pins its value (the streams
-- build nodes with 4, 5 and 6 children and compare `dump`/`serve`), so "not found" alone is no alarm
theorem indexesSize_tie : Facts.indexesSize.all (· = Mux.indexesSize) = true := by decide
theorem startByte_tie : Facts.startByte.all (· = Mux.startByte.toNat) = true := by decide +kernel
theorem endByte_tie : Facts.endByte.all (· = Mux.endByte.toNat) = true := by decide +kernel
theorem separatorByte_tie : Facts.separatorByte.all (· = Mux.separatorByte.toNat) = true := by decide +kernel
theorem ignoreByte_tie : Facts.ignoreByte.all (· = Mux.ignoreByte.toNat) = true := by decide +kernel
theorem methodNotAllowed_tie : Facts.methodNotAllowedIsEmpty = true ∧ Mux.mNotAllowed = [] := by decide

/-- The `Methods` table of the source is the model's table, in the same order (the bit of a method
is its position), and `AnyMethods` cuts off exactly the last three: TRACE, HEAD, OPTIONS. -/
theorem methods_tie : (Facts.methods.map (fun l => l.map (fun s => s.toUTF8.toList))) = some Mux.methodsTable := by decide +kernel
theorem anyCut_tie : Facts.anyCut = some 3 ∧ Mux.anyMethods = Mux.methodsTable.take 6 := by decide
theorem methods_nodup : Mux.methodsTable.Nodup := by decide
theorem reserved_last : Mux.methodsTable.drop 6 = [Mux.mTRACE, Mux.mHEAD, Mux.mOPTIONS] := by decide

/-- The kind order `String < Interceptor < Regexp < Named` is the order of the Go iota block. -/
theorem kindOrder_tie : Facts.kindOrder = some ["String", "Interceptor", "Regexp", "Named"] := by decide
theorem kindRank_tie : Kind.str.rank = 0 ∧ Kind.icpt.rank = 1 ∧ Kind.rx.rank = 2 ∧ Kind.named.rank = 3 := by decide

/-- `node.priority` is `Type*10` plus at most two increments: the kind dominates. -/
theorem priority_tie : Facts.priorityWeights = some (10, 2) := by decide


end Mux.Ties
