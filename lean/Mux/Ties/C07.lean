/-
  Mux.Ties.C07 — side conditions about the facts regenerated from the Go source (`Mux.Generated.Facts`,
  rewritten by factgen on every check run), closed by `decide` (kernel evaluation).  When the source changes a
  fact, the obligation stops checking and the properties that rely on it are reported (DESIGN §5.2).
-/
import Mux.Generated.Facts
import Mux.Model.Ctx
namespace Mux.Ties
open Mux Mux.Facts

/-! ## C07: no shared mutable state between instances; the serve path is read-only -/

/-- Every package-level variable is never mutated after initialisation, or is the `sync.Pool`, or is
only touched under a package-level lock. -/
theorem C07_globals : ∀ g ∈ Facts.globals, g.mutatedIn = [] ∨ g.isSyncPool = true ∨ g.guarded = true := by decide

/-- No function statically reachable from `Router.ServeHTTP` / `Group.ServeHTTP` (matcher
combinators included) writes to router, tree, node, segment, CORS, matcher or group state. -/
theorem C07_readonly : Facts.serveWrites = [] := by decide

/-- The serve path is what the model mirrors: dispatch, CORS, matchers, the context. -/
theorem C07_reach : ∀ f ∈ ["Router.ServeHTTP", "Router.serveContext", "Tree.Handler", "node.matchChildren", "Segment.Match",
    "cors.handle", "Group.ServeHTTP", "Hosts.Match", "pathVersion.Match", "headerVersion.Match"], f ∈ Facts.serveReach := by decide


end Mux.Ties
