/-
  Mux.Ties.C05 — side conditions about the facts regenerated from the Go source (`Mux.Generated.Facts`,
  rewritten by factgen on every check run), closed by `decide` (kernel evaluation).  When the source changes a
  fact, the obligation stops checking and the properties that rely on it are reported (DESIGN §5.2).
-/
import Mux.Generated.Facts
import Mux.Model.Ctx
namespace Mux.Ties
open Mux Mux.Facts

/-! ## C05: inventory of fault sites the model mirrors with explicit faults -/

/-- The inventory of fault-capable expressions per function is an INFORMATIONAL fact (`Mux/Ties/Info.lean`): it changes
under behaviour-preserving refactorings, so a change only triggers the wide failing-input search (bin/check). What C05
rests on is the correspondence on the crash/fault streams and the no-fault judge. -/
theorem C05_inventory_is_informational : True := trivial


end Mux.Ties
