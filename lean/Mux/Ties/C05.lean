/-
  Mux.Ties.C05 — side conditions about the facts regenerated from the Go source (`Mux.Generated.Facts`,
  rewritten by factgen on every check run), closed by `decide` (kernel evaluation).  When the source changes a
  fact, the obligation stops checking and the properties that rely on it are reported (DESIGN §5.2).
-/
import Mux.Generated.Facts
import Mux.Model.Ctx
namespace Mux.Ties
open Mux Mux.Facts

/-! ## C05: inventory of fault sites the model mirrors with explicit faults -/

/-- (index expressions, slice expressions, type assertions, panic calls) per function, as they were
when the model's `Err.fault` sites were written. A new unchecked site changes a count. -/
theorem C05_faultSites : Facts.faultSites = [
    ("internal/syntax.Interceptors.NewSegment", some (3, 8, 0, 0)),
    ("internal/syntax.Interceptors.Split", some (4, 0, 0, 0)),
    ("internal/syntax..splitString", some (0, 3, 0, 0)),
    ("internal/syntax.Segment.cleanName", some (1, 1, 0, 0)),
    ("internal/syntax.Segment.Match", some (5, 8, 0, 0)),
    ("internal/syntax..longestPrefix", some (3, 0, 0, 0)),
    ("internal/syntax.Segment.Split", some (0, 2, 0, 0)),
    ("internal/syntax.Segment.Valid", some (2, 0, 0, 0)),
    ("internal/tree.node.matchChildren", some (4, 0, 0, 0)),
    ("internal/tree.node.buildIndexes", some (2, 0, 0, 0)),
    ("internal/tree.node.checkAmbiguous", some (1, 2, 0, 0)),
    ("internal/tree.Tree.Handler", some (3, 0, 0, 0)),
    (".Hosts.Match", some (0, 3, 0, 0)),
    ("..validOptionalPort", some (1, 1, 0, 0)),
    (".pathVersion.Match", some (0, 1, 0, 0)),
    ("..NewPathVersion", some (3, 0, 0, 1)),
    (".headerVersion.Match", some (1, 0, 0, 0)),
    (".cors.handle", some (0, 0, 0, 0)),
    (".cors.headerIsAllowed", some (0, 0, 0, 0))] := by decide


end Mux.Ties
