/-
  Mux.Model.Tree — transliteration of `internal/tree` (node.go, method.go, tree.go).

  Pointer mutation becomes returning the new value; parent pointers disappear (operations run
  top-down along an index path); Go runtime faults are explicit (`Err.fault`, `MR.fault`).
-/
import Mux.Model.Syntax
namespace Mux

/-! ## Handlers -/

/-- What a stored handler is, up to the user's code. -/
inductive Base where
  | user (id : Nat)
  | options        -- built by `optionsBuilder(node)`: answers `Allow: node.AllowHeader()`
  | notAllowed     -- built by `methodNotAllowedBuilder(node)`
  | notFound
  | trace
  | nil            -- a nil `T` (the private tree of `Hosts`)
  | hostEmpty      -- `Hosts.emptyHandlerFunc`
  | groupNotFound
  deriving DecidableEq, Repr, Inhabited

/-- One middleware application: the arguments the factory was called with. -/
structure Wrap where
  mw : Nat
  method : Bytes
  pattern : Bytes
  router : Bytes
  deriving DecidableEq, Repr, Inhabited

/-- A handler with the middlewares applied to it, innermost first. -/
structure Handler where
  base : Base
  wraps : List Wrap := []
  deriving DecidableEq, Repr, Inhabited

/-- `tree.ApplyMiddleware`. -/
def wrapWith (h : Handler) (method pattern router : Bytes) (ms : List Nat) : Handler :=
  { h with wraps := h.wraps ++ ms.map (fun m => { mw := m, method := method, pattern := pattern, router := router }) }

/-! ## Methods -/

def mGET : Bytes := [71, 69, 84]   -- "GET"
def mPOST : Bytes := [80, 79, 83, 84]   -- "POST"
def mDELETE : Bytes := [68, 69, 76, 69, 84, 69]   -- "DELETE"
def mPUT : Bytes := [80, 85, 84]   -- "PUT"
def mPATCH : Bytes := [80, 65, 84, 67, 72]   -- "PATCH"
def mCONNECT : Bytes := [67, 79, 78, 78, 69, 67, 84]   -- "CONNECT"
def mTRACE : Bytes := [84, 82, 65, 67, 69]   -- "TRACE"
def mHEAD : Bytes := [72, 69, 65, 68]   -- "HEAD"
def mOPTIONS : Bytes := [79, 80, 84, 73, 79, 78, 83]   -- "OPTIONS"
/-- `methodNotAllowed = ""`: the key of the 405 handler. -/
def mNotAllowed : Bytes := []

/-- `tree.Methods` (order matters: the bit of a method is its position). -/
def methodsTable : List Bytes := [mGET, mPOST, mDELETE, mPUT, mPATCH, mCONNECT, mTRACE, mHEAD, mOPTIONS]
/-- `tree.AnyMethods = Methods[:len(Methods)-3]`. -/
def anyMethods : List Bytes := methodsTable.take (methodsTable.length - 3)

/-- `methodIndexMap[m]` (0 for a missing key, as Go's map read). -/
def methodBit (m : Bytes) : Nat :=
  match methodsTable.idxOf? m with
  | some i => 2 ^ i
  | none => 0

def isKnownMethod (m : Bytes) : Bool := methodsTable.contains m

/-- Insertion sort of method names (`slices.Sort`). -/
def insertSorted (m : Bytes) : List Bytes → List Bytes
  | [] => [m]
  | x :: xs => if bytesLt m x then m :: x :: xs else x :: insertSorted m xs
def sortBytes (l : List Bytes) : List Bytes := l.foldr insertSorted []

/-- `methodIndexes[index].methods`: the methods whose bit is set, sorted. -/
def renderMethods (index : Nat) : List Bytes :=
  sortBytes (methodsTable.filter (fun m => index.testBit ((methodsTable.idxOf? m).getD 0)))

/-- `strings.Join(methods, ", ")`. -/
def joinWith (sep : Bytes) : List Bytes → Bytes
  | [] => []
  | [x] => x
  | x :: xs => x ++ sep ++ joinWith sep xs
def allowHeader (index : Nat) : Bytes := joinWith [44, 32] (renderMethods index)

/-! ## Nodes -/

def indexesSize : Nat := 5

inductive Node where
  | mk (seg : Seg) (pattern : Bytes) (methodIndex : Nat) (handlers : AMap Handler)
       (indexes : List (UInt8 × Nat)) (children : List Node)
  deriving Repr, Inhabited

namespace Node
def seg : Node → Seg | .mk s _ _ _ _ _ => s
def pattern : Node → Bytes | .mk _ p _ _ _ _ => p
def methodIndex : Node → Nat | .mk _ _ m _ _ _ => m
def handlers : Node → AMap Handler | .mk _ _ _ h _ _ => h
def indexes : Node → List (UInt8 × Nat) | .mk _ _ _ _ i _ => i
def children : Node → List Node | .mk _ _ _ _ _ c => c
def size (n : Node) : Nat := n.handlers.length
def setChildren (n : Node) (cs : List Node) (idx : List (UInt8 × Nat)) : Node :=
  .mk n.seg n.pattern n.methodIndex n.handlers idx cs
def setHandlers (n : Node) (hs : AMap Handler) (mi : Nat) : Node :=
  .mk n.seg n.pattern mi hs n.indexes n.children
def setSeg (n : Node) (s : Seg) : Node :=
  .mk s n.pattern n.methodIndex n.handlers n.indexes n.children

/-- `node.priority`. -/
def priority (n : Node) : Nat :=
  n.seg.kind.rank * 10 + (if n.children.isEmpty then 1 else 0) + (if n.seg.endpoint then 1 else 0)

def methods (n : Node) : List Bytes := renderMethods n.methodIndex
def allow (n : Node) : Bytes := allowHeader n.methodIndex
end Node

def idxLookup (idx : List (UInt8 × Nat)) (b : UInt8) : Option Nat :=
  (idx.find? (·.1 = b)).map (·.2)
def idxSet (idx : List (UInt8 × Nat)) (b : UInt8) (i : Nat) : List (UInt8 × Nat) :=
  if idx.any (·.1 = b) then idx.map (fun e => if e.1 = b then (b, i) else e) else idx ++ [(b, i)]

/-- Loop body of `buildIndexes` (after the D3 repair the map is rebuilt from scratch). -/
def buildIndexesLoop : List Node → Nat → List (UInt8 × Nat) → Except Err (List (UInt8 × Nat))
  | [], _, acc => .ok acc
  | c :: cs, i, acc =>
    if c.seg.kind = .str then
      match c.seg.value with
      | [] => .error (.fault 210)              -- `node.segment.Value[0]`
      | b :: _ => buildIndexesLoop cs (i + 1) (idxSet acc b i)
    else buildIndexesLoop cs (i + 1) acc

/-- `node.buildIndexes`. -/
def buildIndexes (cs : List Node) : Except Err (List (UInt8 × Nat)) :=
  if cs.length < indexesSize then .ok [] else buildIndexesLoop cs 0 []

/-- `slices.SortStableFunc(children, priority)`. -/
def sortChildren (cs : List Node) : List Node :=
  cs.mergeSort (fun a b => a.priority ≤ b.priority)

/-- Do two siblings carry the same segment text?  This only happens when a pattern has a brace inside a
parameter name (`/{{a}`): `longestPrefix` then cuts inside the token and a split-off half can equal an
existing sibling.  The Go code keeps both nodes apart by pointer identity; the model locates a child by
its text, so such trees are outside the modelled domain (`unsupported`, excluded from the tie). -/
def hasDupValues : List Node → Bool
  | [] => false
  | c :: cs => cs.any (fun d => d.seg.value = c.seg.value) || hasDupValues cs

/-- `node.sort`. -/
def sortNode (n : Node) : Except Err Node := do
  if hasDupValues n.children then throw .unsupported
  let cs := sortChildren n.children
  let idx ← buildIndexes cs
  return n.setChildren cs idx

/-- `removeNodes`: delete the first element whose segment value is `v`. -/
def removeNodes : List Node → Bytes → List Node
  | [], _ => []
  | c :: cs, v => if c.seg.value = v then cs else c :: removeNodes cs v

/-- Position of the first child whose segment value is `v`. -/
def childPos (cs : List Node) (v : Bytes) : Option Nat := cs.findIdx? (fun c => c.seg.value = v)

/-! ## Matching -/

abbrev Params := AMap Bytes

/-- Result of `matchChildren`. `miss` carries the parameters left in the context. -/
inductive MR where
  | fault (site : Nat)
  | unsupported
  | miss (ps : Params)
  | hit (n : Node) (ps : Params)
  deriving Repr

/-- The undo of `matchChildren` after a child's subtree failed (D30 repair): the parameter of that name gets the value it
had before the child's segment matched, or is deleted if it had none. -/
def restoreParam (before after : Params) (name : Bytes) : Params :=
  match before.get? name with
  | some v => after.set name v
  | none => after.erase name

mutual
/-- `node.matchChildren`. -/
def Node.matchChildren (env : Env) (ic : Interceptors) : Node → Bytes → Params → MR
  | .mk seg pat mi hs idx cs, path, ps =>
    let fast : MR :=
      match idx, path with
      | _ :: _, b :: _ => matchAt env ic cs ((idxLookup idx b).getD 0) path ps
      | _, _ => .miss ps
    match fast with
    | .miss ps1 =>
      match matchFrom env ic cs idx.length path ps1 with
      | .miss ps2 =>
        if path.isEmpty ∧ hs.length > 0 then .hit (.mk seg pat mi hs idx cs) ps2 else .miss ps2
      | r => r
    | r => r

/-- The index fast path: try exactly child `i`; on failure nothing is deleted. -/
def matchAt (env : Env) (ic : Interceptors) : List Node → Nat → Bytes → Params → MR
  | [], _, _, _ => .fault 220                      -- `n.children[i]` out of range
  | c :: _, 0, path, ps =>
    match c.seg.match env ic path with
    | .no => .miss ps
    | .unsupported => .unsupported
    | .yes cap rest =>
      let ps1 := if c.seg.kind ≠ .str ∧ ¬ c.seg.ignoreName then ps.set c.seg.name cap else ps
      Node.matchChildren env ic c rest ps1
  | _ :: cs, i + 1, path, ps => matchAt env ic cs i path ps

/-- The `LOOP:` part, starting at child `skip`. After a child's subtree fails, the parameter of the child's own
name is put back to what it was before the child's segment matched: restored to its previous value if it had one,
deleted otherwise (D1 repair, refined by the D30 repair: `restoreParam`). -/
def matchFrom (env : Env) (ic : Interceptors) : List Node → Nat → Bytes → Params → MR
  | [], _, _, ps => .miss ps
  | _ :: cs, skip + 1, path, ps => matchFrom env ic cs skip path ps
  | c :: cs, 0, path, ps =>
    match c.seg.match env ic path with
    | .no => matchFrom env ic cs 0 path ps
    | .unsupported => .unsupported
    | .yes cap rest =>
      let ps1 := if c.seg.kind ≠ .str ∧ ¬ c.seg.ignoreName then ps.set c.seg.name cap else ps
      match Node.matchChildren env ic c rest ps1 with
      | .miss ps2 => matchFrom env ic cs 0 path (restoreParam ps ps2 c.seg.name)
      | r => r
end

/-! ## Insertion -/

/-- The scan of `addSegment`: `identical i` or the best similarity `(l, i)`. -/
inductive Best where
  | identical (i : Nat)
  | best (l : Int) (i : Nat)
  deriving Repr

def scanChildren (seg : Seg) : List Node → Nat → Int → Nat → Best
  | [], _, l, bi => .best l bi
  | c :: cs, i, l, bi =>
    let l1 := c.seg.similarity seg
    if l1 = -1 then .identical i
    else if l1 > l then scanChildren seg cs (i + 1) l1 i
    else scanChildren seg cs (i + 1) l bi

/-- A fresh leaf (`newChild`). -/
def newLeaf (parentPattern : Bytes) (s : Seg) : Node := .mk s (parentPattern ++ s.value) 0 [] [] []

/-- `getNode`/`addSegment`/`splitNode`: restructure the tree so that a node for the segment values
`v :: rest` exists below `n`; returns the new `n` and the index path to that node. -/
def getNode (ic : Interceptors) (n : Node) (v : Bytes) (rest : List Bytes) : Except Err (Node × List Nat) := do
  let seg ← newSegment ic v
  -- continue below child `c` (already in its final position `j` of `cs`)
  match scanChildren seg n.children 0 0 0 with
  | .identical i =>
    match n.children[i]? with
    | none => throw (.fault 230)
    | some c =>
      match rest with
      | [] => return (n, [i])
      | v' :: rest' =>
        let (c', p) ← getNode ic c v' rest'
        return (n.setChildren (n.children.set i c') n.indexes, i :: p)
  | .best l i =>
    if l ≤ 0 then
      let nn := newLeaf n.pattern seg
      let n1 ← sortNode (n.setChildren (n.children ++ [nn]) n.indexes)
      match childPos n1.children v with
      | none => throw (.fault 231)
      | some j =>
        match rest with
        | [] => return (n1, [j])
        | v' :: rest' =>
          let (nn', p) ← getNode ic nn v' rest'
          return (n1.setChildren (n1.children.set j nn') n1.indexes, j :: p)
    else
      let l := l.toNat
      match n.children[i]? with
      | none => throw (.fault 232)
      | some c =>
        -- splitNode(child, l)
        let (n1, j, parent) ←
          if c.seg.value.length ≤ l then pure (n, i, c)
          else do
            let cs0 := removeNodes n.children c.seg.value
            let (s1, s2) ← c.seg.splitAt ic l
            let lower := c.setSeg s2                         -- D4 repair: the node object is kept
            let ret : Node := .mk s1 (n.pattern ++ s1.value) 0 [] [] [lower]
            let ret ← sortNode ret
            let n1 ← sortNode (n.setChildren (cs0 ++ [ret]) n.indexes)
            match childPos n1.children s1.value with
            | none => throw (.fault 233)
            | some j => pure (n1, j, ret)
        if v.length ≤ l then
          -- seg overlaps parent exactly
          match rest with
          | [] => return (n1, [j])
          | v' :: rest' =>
            let (p', path) ← getNode ic parent v' rest'
            return (n1.setChildren (n1.children.set j p') n1.indexes, j :: path)
        else
          let (p', path) ← getNode ic parent (v.drop l) rest
          return (n1.setChildren (n1.children.set j p') n1.indexes, j :: path)
termination_by (rest.length, v.length)
decreasing_by
  all_goals simp_wf
  all_goals first
    | (apply Prod.Lex.left; simp; done)
    | (apply Prod.Lex.right; (try simp only [List.length_drop]); omega)


/-! ## Lookup and update along an index path -/

mutual
/-- `node.find`: index path of the node whose segment values concatenate to `pat`. -/
def Node.findPath : Node → Bytes → Option (List Nat)
  | .mk _ _ _ _ _ cs, pat => findIn cs 0 pat
def findIn : List Node → Nat → Bytes → Option (List Nat)
  | [], _, _ => none
  | c :: cs, i, pat =>
    if c.seg.value = pat then some [i]
    else if hasPrefix pat c.seg.value then
      match Node.findPath c (pat.drop c.seg.value.length) with
      | some p => some (i :: p)
      | none => findIn cs (i + 1) pat
    else findIn cs (i + 1) pat
end

mutual
def Node.getAt : Node → List Nat → Option Node
  | n, [] => some n
  | .mk _ _ _ _ _ cs, i :: p => getAtL cs i p
def getAtL : List Node → Nat → List Nat → Option Node
  | [], _, _ => none
  | c :: _, 0, p => Node.getAt c p
  | _ :: cs, i + 1, p => getAtL cs i p
end

mutual
/-- Segments along an index path (root excluded). -/
def Node.segsAt : Node → List Nat → Option (List Seg)
  | _, [] => some []
  | .mk _ _ _ _ _ cs, i :: p => segsAtL cs i p
def segsAtL : List Node → Nat → List Nat → Option (List Seg)
  | [], _, _ => none
  | c :: _, 0, p => (Node.segsAt c p).map (c.seg :: ·)
  | _ :: cs, i + 1, p => segsAtL cs i p
end

mutual
/-- Apply `f` to the node at an index path. -/
def Node.modifyAt (f : Node → Except Err Node) : Node → List Nat → Except Err Node
  | n, [] => f n
  | .mk s p mi hs idx cs, i :: path => do
    let cs' ← modifyAtL f cs i path
    return .mk s p mi hs idx cs'
def modifyAtL (f : Node → Except Err Node) : List Node → Nat → List Nat → Except Err (List Node)
  | [], _, _ => .error (.fault 240)
  | c :: cs, 0, path => do
    let c' ← Node.modifyAt f c path
    return c' :: cs
  | c :: cs, i + 1, path => do
    let cs' ← modifyAtL f cs i path
    return c :: cs'
end

mutual
/-- `Tree.Remove`'s tail: apply `f` at the path, then delete emptied nodes bottom-up, rebuilding
the index of every parent that lost a child. -/
def Node.removeAt (f : Node → Node) : Node → List Nat → Except Err Node
  | n, [] => .ok (f n)
  | .mk s p mi hs idx cs, i :: path => do
    let (cs', deleted) ← removeAtL f cs i path
    if deleted then
      let idx' ← buildIndexes cs'
      return .mk s p mi hs idx' cs'
    else return .mk s p mi hs idx cs'
def removeAtL (f : Node → Node) : List Node → Nat → List Nat → Except Err (List Node × Bool)
  | [], _, _ => .error (.fault 241)
  | c :: cs, 0, path => do
    let c' ← Node.removeAt f c path
    if c'.size = 0 ∧ c'.children.isEmpty then return (cs, true) else return (c' :: cs, false)
  | c :: cs, i + 1, path => do
    let (cs', d) ← removeAtL f cs i path
    return (c :: cs', d)
end

/-! ## clean -/

mutual
/-- `node.clean(prefix)` (with the D3 repair: the index is rebuilt in the `""` branch too). -/
def Node.clean : Node → Bytes → Except Err Node
  | .mk s p mi hs idx cs, pre =>
    if pre.isEmpty then .ok (.mk s p mi hs [] [])
    else do
      let cs1 ← cleanL cs pre
      let dels := (cs1.filter (fun c => hasPrefix c.seg.value pre)).map (·.seg.value)
      let cs2 := dels.foldl removeNodes cs1
      let idx' ← buildIndexes cs2
      let _ := idx
      return .mk s p mi hs idx' cs2
def cleanL : List Node → Bytes → Except Err (List Node)
  | [], _ => .ok []
  | c :: cs, pre => do
    let c' ←
      if c.seg.value.length < pre.length ∧ hasPrefix pre c.seg.value then
        Node.clean c (pre.drop c.seg.value.length)
      else pure c
    let cs' ← cleanL cs pre
    return c' :: cs'
end

/-! ## routes, middleware, method bookkeeping -/

mutual
/-- `node.routes`: `(pattern, methods)` of every node with `methodIndex > 0`, depth first. -/
def Node.routes : Node → List (Bytes × List Bytes)
  | .mk _ p mi _ _ cs => (if mi > 0 then [(p, renderMethods mi)] else []) ++ routesL cs
def routesL : List Node → List (Bytes × List Bytes)
  | [] => []
  | c :: cs => Node.routes c ++ routesL cs
end

mutual
/-- `node.applyMiddleware`. -/
def Node.applyMw (router : Bytes) (ms : List Nat) : Node → Node
  | .mk s p mi hs idx cs =>
    .mk s p mi (hs.map (fun e => (e.1, wrapWith e.2 e.1 p router ms))) idx (applyMwL router ms cs)
def applyMwL (router : Bytes) (ms : List Nat) : List Node → List Node
  | [] => []
  | c :: cs => Node.applyMw router ms c :: applyMwL router ms cs
end

/-- `node.buildMethods` (with the D20 repair: the TRACE bit needs at least one handler). -/
def nodeMethodIndex (hasTrace : Bool) (hs : AMap Handler) : Nat :=
  (hs.map (fun e => methodBit e.1)).sum + (if hasTrace ∧ hs.length > 0 then methodBit mTRACE else 0)

mutual
/-- Number of nodes (below the given one) on which each hand-registered method is present:
the recount of the D5 repair. -/
def Node.countMethods : Node → AMap Nat → AMap Nat
  | .mk _ _ _ _ _ cs, acc => countMethodsL cs acc
def countMethodsL : List Node → AMap Nat → AMap Nat
  | [], acc => acc
  | c :: cs, acc =>
    let acc1 := c.handlers.foldl (fun a e =>
      if e.1 = mHEAD ∨ e.1 = mOPTIONS ∨ e.1 = mNotAllowed then a else a.set e.1 ((a.get? e.1).getD 0 + 1)) acc
    countMethodsL cs (Node.countMethods c acc1)
end

/-! ## checkAmbiguous -/

mutual
/-- `node.checkAmbiguous`: `some has` when a node was found. -/
def Node.checkAmb (ic : Interceptors) : Node → Bytes → Bool → Except Err (Option Bool)
  | .mk _ _ _ hs _ cs, pat, has =>
    if pat.isEmpty then (if hs.length > 0 then .ok (some has) else .ok none)
    else checkAmbL ic cs pat has
def checkAmbL (ic : Interceptors) : List Node → Bytes → Bool → Except Err (Option Bool)
  | [], _, _ => .ok none
  | c :: cs, pat, has =>
    if hasPrefix pat c.seg.value then do
      match ← Node.checkAmb ic c (pat.drop c.seg.value.length) has with
      | some h => return some h
      | none => checkAmbL ic cs pat has
    else do
      let segs ← split ic pat
      match segs with
      | [] => throw (.fault 250)                       -- `segs[0]`
      | s0 :: _ =>
        if c.seg.isAmbiguous s0 then
          let rest ← sliceE 251 pat s0.value.length pat.length       -- D24 repair: `pattern[len(s0.Value):]`
          match ← Node.checkAmb ic c rest true with
          | some h => return some h
          | none => checkAmbL ic cs pat has
        else if c.seg.isAmbiguousPrefix s0 then
          -- D33 repair: `c` is the upper half of a split parameter node; go on below it with what follows its literal text
          let rest ← sliceE 252 pat (s0.value.length - s0.suffix.length + c.seg.suffix.length) pat.length
          match ← Node.checkAmb ic c rest true with
          | some h => return some h
          | none => checkAmbL ic cs pat has
        else checkAmbL ic cs pat has
end

/-! ## The tree -/

structure Tree where
  root : Node
  counts : AMap Nat := []
  ic : Interceptors := []
  name : Bytes
  notFound : Handler
  trace : Option Handler := none
  optionsBase : Base := .options
  notAllowedBase : Base := .notAllowed
  deriving Repr, Inhabited

def Tree.hasTrace (t : Tree) : Bool := t.trace.isSome

/-- The root's method index as `Tree.buildMethods` computes it. -/
def rootMethodIndex (hasTrace : Bool) (counts : AMap Nat) : Nat :=
  methodBit mOPTIONS + (if hasTrace then methodBit mTRACE else 0) +
    ((counts.filter (fun e => e.2 > 0)).map (fun e => methodBit e.1)).sum

/-- `Tree.buildMethods(num = +1, methods...)`. -/
def Tree.bumpMethods (t : Tree) (methods : List Bytes) : Tree :=
  let counts := methods.foldl (fun a m => a.set m ((a.get? m).getD 0 + 1)) t.counts
  { t with counts := counts,
           root := t.root.setHandlers t.root.handlers (rootMethodIndex t.hasTrace counts) }

/-- The recount of the D5 repair followed by `buildMethods(0)`. -/
def Tree.recount (t : Tree) : Tree :=
  let counts := t.root.countMethods []
  { t with counts := counts,
           root := t.root.setHandlers t.root.handlers (rootMethodIndex t.hasTrace counts) }

/-- `tree.New` (with the D5/D6 repairs: the root has a 405 handler and its method index is built). -/
def Tree.new (name : Bytes) (ic : Interceptors) (notFound : Handler) (trace : Option Handler)
    (optionsBase : Base := .options) (notAllowedBase : Base := .notAllowed) : Tree :=
  let hs : AMap Handler := [(mOPTIONS, { base := optionsBase }), (mNotAllowed, { base := notAllowedBase })]
  let root : Node := .mk { value := [] } [] (rootMethodIndex trace.isSome []) hs [] []
  { root := root, counts := [], ic := ic, name := name, notFound := notFound, trace := trace,
    optionsBase := optionsBase, notAllowedBase := notAllowedBase }

/-- Validation of a method list before the tree is touched (D16 repair). -/
def Tree.checkMethods (t : Tree) (pattern : Bytes) : List Bytes → List Bytes → Except Err Unit
  | [], _ => .ok ()
  | m :: ms, seen => do
    if m = mOPTIONS ∨ m = mHEAD ∨ (t.hasTrace ∧ m = mTRACE) then throw .reserved
    if ¬ isKnownMethod m then throw .unknownMethod
    if seen.contains m then throw .dupMethod
    match t.root.findPath pattern with
    | some p =>
      match t.root.getAt p with
      | some n => if n.handlers.contains m then throw .dupMethod
      | none => pure ()
    | none => pure ()
    Tree.checkMethods t pattern ms (m :: seen)

/-- `node.addMethods` without the tree-wide part. -/
def addMethodsLoop (t : Tree) (h : Handler) (pattern : Bytes) (ms : List Nat) :
    List Bytes → AMap Handler → Except Err (AMap Handler)
  | [], hs => .ok hs
  | m :: rest, hs => do
    if m = mOPTIONS ∨ m = mHEAD ∨ (t.hasTrace ∧ m = mTRACE) then throw .reserved
    if ¬ isKnownMethod m then throw .unknownMethod
    if hs.contains m then throw .dupMethod
    let hs1 := if m = mGET then hs.set mHEAD (wrapWith h mHEAD pattern t.name ms) else hs
    addMethodsLoop t h pattern ms rest (hs1.set m (wrapWith h m pattern t.name ms))

def Tree.addMethodsNode (t : Tree) (h : Handler) (pattern : Bytes) (ms : List Nat) (methods : List Bytes)
    (n : Node) : Except Err Node := do
  let hs ← addMethodsLoop t h pattern ms methods n.handlers
  let hs := if hs.contains mOPTIONS then hs
    else hs.set mOPTIONS (wrapWith { base := t.optionsBase } mOPTIONS pattern t.name ms)
  let hs := if hs.contains mNotAllowed then hs
    else hs.set mNotAllowed (wrapWith { base := t.notAllowedBase } mNotAllowed pattern t.name ms)
  return n.setHandlers hs (nodeMethodIndex t.hasTrace hs)

/-- `Tree.Add`. On an error the tree is returned unchanged (see DESIGN §4.2: with the D16 repair
every check precedes the first mutation; a mutation before a late error would show in the tie). -/
def Tree.add (t : Tree) (pattern : Bytes) (h : Handler) (ms : List Nat) (methods : List Bytes) :
    Except Err Tree := do
  let methods := if methods.isEmpty then anyMethods else methods
  match ← t.root.checkAmb t.ic pattern false with
  | some true => throw .ambiguous
  | _ => pure ()
  let _ ← split t.ic pattern
  Tree.checkMethods t pattern methods []
  match splitString pattern with
  | [] => throw (.fault 260)
  | v :: rest =>
    let (root1, path) ← getNode t.ic t.root v rest
    let root2 ← root1.modifyAt (t.addMethodsNode h pattern ms methods) path
    return ({ t with root := root2 }).bumpMethods methods

/-- The handler-map part of `Tree.Remove` (with the D9 repair: HEAD and the 405 key are ignored). -/
def removeMethods (hasTrace : Bool) (methods : List Bytes) (n : Node) : Node :=
  let hs :=
    if methods.isEmpty then []
    else
      let hs1 := methods.foldl (fun hs m =>
        if m = mOPTIONS ∨ m = mHEAD ∨ m = mNotAllowed then hs
        else if m = mGET then (hs.erase mHEAD).erase mGET
        else hs.erase m) n.handlers
      if hs1.length = 2 ∧ hs1.contains mOPTIONS ∧ hs1.contains mNotAllowed then [] else hs1
  n.setHandlers hs (nodeMethodIndex hasTrace hs)

/-- `Tree.Remove`. -/
def Tree.remove (t : Tree) (pattern : Bytes) (methods : List Bytes) : Except Err Tree :=
  match t.root.findPath pattern with
  | none => .ok t
  | some p => do
    let root1 ← t.root.removeAt (removeMethods t.hasTrace methods) p
    return ({ t with root := root1 }).recount

/-- `Tree.Clean`. -/
def Tree.clean (t : Tree) (pre : Bytes) : Except Err Tree := do
  let root1 ← t.root.clean pre
  return ({ t with root := root1 }).recount

/-- `Tree.Routes` as a list (the driver sorts it; duplicates cannot arise on well-formed trees). -/
def Tree.routes (t : Tree) : List (Bytes × List Bytes) :=
  ([42], mOPTIONS :: (if t.hasTrace then [mTRACE] else [])) :: routesL t.root.children

/-- `Tree.ApplyMiddleware`. -/
def Tree.applyMiddleware (t : Tree) (ms : List Nat) : Tree :=
  { t with notFound := wrapWith t.notFound [] [] t.name ms,
           trace := t.trace.map (fun h => wrapWith h mTRACE [] t.name ms),
           root := t.root.applyMw t.name ms }

/-- What `Tree.Handler` returns, plus the parameters left in the context. -/
structure Found where
  node : Option Node
  handler : Handler
  ok : Bool
  params : Params
  deriving Repr

inductive HR where
  | fault (site : Nat)
  | unsupported
  | res (f : Found)
  deriving Repr

/-- `Tree.Handler` (with the D6/D21 repairs). -/
def Tree.handler (env : Env) (t : Tree) (path : Bytes) (ps : Params) (method : Bytes) : HR :=
  match t.trace with
  | some h =>
    if method = mTRACE then .res { node := some t.root, handler := h, ok := true, params := ps }
    else Tree.handlerNoTrace env t path ps method
  | none => Tree.handlerNoTrace env t path ps method
where
  Tree.handlerNoTrace (env : Env) (t : Tree) (path : Bytes) (ps : Params) (method : Bytes) : HR :=
    let r : MR := if path = [42] ∨ path = [] then .hit t.root ps else t.root.matchChildren env t.ic path ps
    match r with
    | .fault s => .fault s
    | .unsupported => .unsupported
    | .miss ps' => .res { node := none, handler := t.notFound, ok := false, params := ps' }
    | .hit n ps' =>
      if n.size = 0 then .res { node := none, handler := t.notFound, ok := false, params := ps' }
      else
        match (if method = mNotAllowed then none else n.handlers.get? method) with
        | some h => .res { node := some n, handler := h, ok := true, params := ps' }
        | none =>
          match n.handlers.get? mNotAllowed with
          | some h => .res { node := some n, handler := h, ok := false, params := ps' }
          | none => .res { node := some n, handler := { base := .nil }, ok := false, params := ps' }

/-- `Tree.URL` (strict; with the D10 repairs). -/
def strictUrlLoop (env : Env) (ic : Interceptors) (ps : AMap Bytes) : List Seg → Except Err Bytes
  | [] => .ok []
  | s :: segs =>
    if s.kind = .str then do
      let r ← strictUrlLoop env ic ps segs
      return s.value ++ r
    else
      match ps.get? s.name with
      | none => .error .missingParam
      | some v =>
        match s.valid env ic v with
        | none => .error .unsupported
        | some false => .error .badValue
        | some true => do
          let r ← strictUrlLoop env ic ps segs
          return v ++ s.suffix ++ r

def Tree.url (env : Env) (t : Tree) (pattern : Bytes) (ps : AMap Bytes) : Except Err Bytes :=
  match t.root.findPath pattern with
  | none => .error .notRoute
  | some p =>
    match t.root.getAt p, t.root.segsAt p with
    | some n, some segs => if n.size = 0 then .error .notRoute else strictUrlLoop env t.ic ps segs
    | _, _ => .error (.fault 270)

end Mux
