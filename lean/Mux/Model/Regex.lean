/-
  Mux.Model.Regex — the modelled dialect of Go's `regexp` (RE2 syntax, leftmost-first semantics).

  `parseRule` parses the dialect and answers `unsupported` outside it; `Re.m` is a backtracking
  matcher in continuation-passing style whose exploration order is the priority order that Go's
  `regexp` guarantees for non-POSIX syntax.  The tie `rx` compares it with
  `regexp.FindStringSubmatchIndex` on generated rules and inputs.
-/
import Mux.Model.Basic
namespace Mux

/-- A single-byte class. `ranges` are inclusive. -/
structure Cls where
  neg : Bool
  ranges : List (UInt8 × UInt8)
  deriving DecidableEq, Repr, Inhabited

def Cls.has (c : Cls) (b : UInt8) : Bool :=
  (c.ranges.any (fun r => r.1 ≤ b ∧ b ≤ r.2)) != c.neg

inductive Re where
  | eps
  | cls (c : Cls)
  | seq (a b : Re)
  | alt (a b : Re)
  | star (c : Cls)
  | plus (c : Cls)
  | opt (r : Re)
  deriving Repr, Inhabited

/-- Greedy `c*` followed by continuation `k`. -/
def starM {α : Type} (c : Cls) : Bytes → (Bytes → Option α) → Option α
  | [], k => k []
  | b :: s, k =>
    if c.has b then
      match starM c s k with
      | some x => some x
      | none => k (b :: s)
    else k (b :: s)

/-- `r.m s k`: the first (in leftmost-first priority order) way of matching a prefix of `s` with
`r` such that the continuation accepts the rest. -/
def Re.m {α : Type} : Re → Bytes → (Bytes → Option α) → Option α
  | .eps, s, k => k s
  | .cls c, s, k =>
    match s with
    | b :: s' => if c.has b then k s' else none
    | [] => none
  | .seq a b, s, k => a.m s (fun s' => b.m s' k)
  | .alt a b, s, k =>
    match a.m s k with
    | some x => some x
    | none => b.m s k
  | .star c, s, k => starM c s k
  | .plus c, s, k =>
    match s with
    | b :: s' => if c.has b then starM c s' k else none
    | [] => none
  | .opt r, s, k =>
    match r.m s k with
    | some x => some x
    | none => k s

/-- Does the expression contain a class that can match a byte ≥ 0x80 (`.` or a negated class)?
Only then does Go's rune-wise matching differ from the model's byte-wise matching. -/
def Re.wide : Re → Bool
  | .eps => false
  | .cls c => c.neg
  | .seq a b => a.wide || b.wide
  | .alt a b => a.wide || b.wide
  | .star c => c.neg
  | .plus c => c.neg
  | .opt r => r.wide

/-- Anchored match of `(rule)` followed by the literal `suffix` at the start of `path`:
`some (captured, rest)`.  This is `FindStringSubmatchIndex` with `loc[0] = 0`. -/
def rxMatch (re : Re) (suffix path : Bytes) : Option (Bytes × Bytes) :=
  re.m path (fun r1 =>
    if suffix.isPrefixOf r1 then some (path.take (path.length - r1.length), r1.drop suffix.length)
    else none)

/-! ## Parser for the dialect -/

inductive ParseRes (α : Type) where
  | ok (a : α)
  | bad            -- regexp.Compile would fail
  | unsupported    -- outside the dialect
  deriving Repr

def clsDigit : List (UInt8 × UInt8) := [(48, 57)]
def clsWord : List (UInt8 × UInt8) := [(48, 57), (65, 90), (95, 95), (97, 122)]
def clsSpace : List (UInt8 × UInt8) := [(9, 10), (12, 13), (32, 32)]
/-- `.` without the `s` flag: everything except `\n`. -/
def clsDot : Cls := { neg := true, ranges := [(10, 10)] }

def isPunct (b : UInt8) : Bool :=
  (33 ≤ b ∧ b ≤ 47) ∨ (58 ≤ b ∧ b ≤ 64) ∨ (91 ≤ b ∧ b ≤ 96) ∨ (123 ≤ b ∧ b ≤ 126)

/-- Complement of a list of ranges within 0..127 is not needed: `\D` etc. are outside the dialect. -/
def escClass (b : UInt8) : Option (List (UInt8 × UInt8)) :=
  if b = 100 then some clsDigit       -- \d
  else if b = 119 then some clsWord   -- \w
  else if b = 115 then some clsSpace  -- \s
  else none

/-- Parse the inside of a bracket class after `[` / `[^`; returns ranges and the rest after `]`. -/
def parseBracket : Nat → Bytes → List (UInt8 × UInt8) → Bool → ParseRes (List (UInt8 × UInt8) × Bytes)
  | 0, _, _, _ => .unsupported
  | _ + 1, [], _, _ => .bad                                   -- missing closing ]
  | fuel + 1, b :: rest, acc, first =>
    if b ≥ 128 then .unsupported
    else if b = 93 then                                        -- ]
      if first then .unsupported else .ok (acc.reverse, rest)
    else if b = 91 then .unsupported                           -- [ inside class ([:alpha:] etc.)
    else if b = 92 then                                        -- backslash
      match rest with
      | [] => .bad           -- trailing backslash: the rule alone does not compile (repair D35: Go compiles the rule on its own first)
      | e :: rest' =>
        match escClass e with
        | some rs => parseBracket fuel rest' (rs.reverse ++ acc) false
        | none =>
          if isPunct e then
            -- escaped punctuation is a literal; ranges starting from an escape are unsupported
            match rest' with
            | 45 :: 93 :: _ => parseBracket fuel rest' ((e, e) :: acc) false
            | 45 :: _ => .unsupported
            | _ => parseBracket fuel rest' ((e, e) :: acc) false
          else .unsupported
    else
      match rest with
      | 45 :: 93 :: _ => parseBracket fuel rest ((b, b) :: acc) false     -- "a-]" : '-' literal next
      | 45 :: hi :: rest' =>
        if hi ≥ 128 ∨ hi = 92 ∨ hi = 91 then .unsupported
        else if hi < b then .bad                                           -- invalid range
        else parseBracket fuel rest' ((b, hi) :: acc) false
      | _ => parseBracket fuel rest ((b, b) :: acc) false

/-- Apply postfix operators to an atom. `c?` is `some cls` when the atom is a single-byte class. -/
def applyPostfix (atom : Re) (c? : Option Cls) : Bytes → ParseRes (Re × Bytes)
  | 42 :: rest =>                                  -- *
    match c?, rest with
    | _, 42 :: _ => .unsupported | _, 43 :: _ => .unsupported | _, 63 :: _ => .unsupported
    | some c, _ => .ok (.star c, rest)
    | none, _ => .unsupported
  | 43 :: rest =>                                  -- +
    match c?, rest with
    | _, 42 :: _ => .unsupported | _, 43 :: _ => .unsupported | _, 63 :: _ => .unsupported
    | some c, _ => .ok (.plus c, rest)
    | none, _ => .unsupported
  | 63 :: rest =>                                  -- ?
    match rest with
    | 42 :: _ => .unsupported | 43 :: _ => .unsupported | 63 :: _ => .unsupported
    | _ => .ok (.opt atom, rest)
  | rest => .ok (atom, rest)

mutual
/-- alternation: seq ('|' seq)* ; stops at ')' or end. -/
def parseAlt : Nat → Bytes → ParseRes (Re × Bytes)
  | 0, _ => .unsupported
  | fuel + 1, s =>
    match parseSeq fuel s .eps true with
    | .ok (a, 124 :: rest) =>
      match parseAlt fuel rest with
      | .ok (b, rest') => .ok (.alt a b, rest')
      | .bad => .bad
      | .unsupported => .unsupported
    | r => r

/-- concatenation of atoms; `atStart` = no atom yet (a repetition operator here is an error). -/
def parseSeq : Nat → Bytes → Re → Bool → ParseRes (Re × Bytes)
  | 0, _, _, _ => .unsupported
  | _ + 1, [], acc, _ => .ok (acc, [])
  | fuel + 1, b :: rest, acc, atStart =>
    let cont (r : ParseRes (Re × Bytes)) : ParseRes (Re × Bytes) :=
      match r with
      | .ok (a, rest') => parseSeq fuel rest' (if atStart then a else .seq acc a) false
      | .bad => .bad
      | .unsupported => .unsupported
    if b ≥ 128 then .unsupported
    else if b = 41 ∨ b = 124 then .ok (acc, b :: rest)           -- ) or |
    else if b = 42 ∨ b = 43 ∨ b = 63 then                         -- * + ? without argument
      if atStart then .bad else .unsupported
    else if b = 40 then                                            -- (
      match rest with
      | 63 :: _ => .unsupported                                    -- (?...
      | _ =>
        match parseAlt fuel rest with
        | .ok (a, 41 :: rest') => cont (applyPostfix a none rest')
        | .ok (_, _) => .bad                                       -- missing )
        | .bad => .bad
        | .unsupported => .unsupported
    else if b = 91 then                                            -- [
      let (neg, body) := match rest with
        | 94 :: r => (true, r)
        | r => (false, r)
      match parseBracket (body.length + 1) body [] true with
      | .ok (rs, rest') => let c : Cls := { neg := neg, ranges := rs }; cont (applyPostfix (.cls c) (some c) rest')
      | .bad => .bad
      | .unsupported => .unsupported
    else if b = 46 then cont (applyPostfix (.cls clsDot) (some clsDot) rest)   -- .
    else if b = 92 then                                            -- backslash
      match rest with
      | [] => .bad           -- trailing backslash: the rule alone does not compile (repair D35: Go compiles the rule on its own first)
      | e :: rest' =>
        match escClass e with
        | some rs => let c : Cls := { neg := false, ranges := rs }; cont (applyPostfix (.cls c) (some c) rest')
        | none =>
          if isPunct e then let c : Cls := { neg := false, ranges := [(e, e)] }; cont (applyPostfix (.cls c) (some c) rest')
          else .unsupported
    else if b = 93 ∨ b = 94 ∨ b = 36 ∨ b = 123 ∨ b = 125 then .unsupported    -- ] ^ $ { }
    else let c : Cls := { neg := false, ranges := [(b, b)] }; cont (applyPostfix (.cls c) (some c) rest)
end

/-- Parse a whole rule. Go compiles the rule on its own before it compiles the TEXT `(?P<name>` ++ rule ++ `)` ++ quoted
suffix (repair D35), so a stray `)` — the only way `parseAlt` stops early — is a syntax error (before D35 `a)|(b` was
accepted, its named group did not take part in a match and `Segment.Match` faulted on `/b`). -/
def parseRule (rule : Bytes) : ParseRes Re :=
  match parseAlt (rule.length + 2) rule with
  | .ok (r, []) => .ok r
  | .ok (_, _) => .bad
  | .bad => .bad
  | .unsupported => .unsupported

/-- Go's capture-group name syntax: one or more of `[A-Za-z0-9_]`. -/
def validGroupName (n : Bytes) : Bool :=
  n ≠ [] ∧ n.all (fun b => (48 ≤ b ∧ b ≤ 57) ∨ (65 ≤ b ∧ b ≤ 90) ∨ (97 ≤ b ∧ b ≤ 122) ∨ b = 95)

end Mux
