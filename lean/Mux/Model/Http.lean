/-
  Mux.Model.Http — header maps, the recorder model of `http.ResponseWriter`, `headResponse`,
  the CORS procedure (`options.go`), the TRACE helper (`internal/trace`).
-/
import Mux.Model.Tree
namespace Mux

/-! ## Header maps (`http.Header` with canonical keys) -/

abbrev Hdr := List (Bytes × List Bytes)

namespace Hdr
def get (h : Hdr) (k : Bytes) : Bytes :=
  match h.find? (·.1 = k) with
  | some (_, v :: _) => v
  | _ => []
def values (h : Hdr) (k : Bytes) : List Bytes :=
  match h.find? (·.1 = k) with
  | some (_, vs) => vs
  | none => []
def has (h : Hdr) (k : Bytes) : Bool := h.any (·.1 = k)
def del (h : Hdr) (k : Bytes) : Hdr := h.filter (·.1 ≠ k)
def set (h : Hdr) (k v : Bytes) : Hdr :=
  if h.has k then h.map (fun e => if e.1 = k then (k, [v]) else e) else h ++ [(k, [v])]
def add (h : Hdr) (k v : Bytes) : Hdr :=
  if h.has k then h.map (fun e => if e.1 = k then (k, e.2 ++ [v]) else e) else h ++ [(k, [v])]
end Hdr

def hAllow : Bytes := [65, 108, 108, 111, 119]   -- "Allow"
def hVary : Bytes := [86, 97, 114, 121]   -- "Vary"
def hOrigin : Bytes := [79, 114, 105, 103, 105, 110]   -- "Origin"
def hContentLength : Bytes := [67, 111, 110, 116, 101, 110, 116, 45, 76, 101, 110, 103, 116, 104]   -- "Content-Length"
def hContentType : Bytes := [67, 111, 110, 116, 101, 110, 116, 45, 84, 121, 112, 101]   -- "Content-Type"
def hAccept : Bytes := [65, 99, 99, 101, 112, 116]   -- "Accept"
def hAuthorization : Bytes := [65, 117, 116, 104, 111, 114, 105, 122, 97, 116, 105, 111, 110]   -- "Authorization"
def hACAO : Bytes := [65, 99, 99, 101, 115, 115, 45, 67, 111, 110, 116, 114, 111, 108, 45, 65, 108, 108, 111, 119, 45, 79, 114, 105, 103, 105, 110]   -- "Access-Control-Allow-Origin"
def hACAC : Bytes := [65, 99, 99, 101, 115, 115, 45, 67, 111, 110, 116, 114, 111, 108, 45, 65, 108, 108, 111, 119, 45, 67, 114, 101, 100, 101, 110, 116, 105, 97, 108, 115]   -- "Access-Control-Allow-Credentials"
def hACAM : Bytes := [65, 99, 99, 101, 115, 115, 45, 67, 111, 110, 116, 114, 111, 108, 45, 65, 108, 108, 111, 119, 45, 77, 101, 116, 104, 111, 100, 115]   -- "Access-Control-Allow-Methods"
def hACAH : Bytes := [65, 99, 99, 101, 115, 115, 45, 67, 111, 110, 116, 114, 111, 108, 45, 65, 108, 108, 111, 119, 45, 72, 101, 97, 100, 101, 114, 115]   -- "Access-Control-Allow-Headers"
def hACEH : Bytes := [65, 99, 99, 101, 115, 115, 45, 67, 111, 110, 116, 114, 111, 108, 45, 69, 120, 112, 111, 115, 101, 45, 72, 101, 97, 100, 101, 114, 115]   -- "Access-Control-Expose-Headers"
def hACMA : Bytes := [65, 99, 99, 101, 115, 115, 45, 67, 111, 110, 116, 114, 111, 108, 45, 77, 97, 120, 45, 65, 103, 101]   -- "Access-Control-Max-Age"
def hACRM : Bytes := [65, 99, 99, 101, 115, 115, 45, 67, 111, 110, 116, 114, 111, 108, 45, 82, 101, 113, 117, 101, 115, 116, 45, 77, 101, 116, 104, 111, 100]   -- "Access-Control-Request-Method"
def hACRH : Bytes := [65, 99, 99, 101, 115, 115, 45, 67, 111, 110, 116, 114, 111, 108, 45, 82, 101, 113, 117, 101, 115, 116, 45, 72, 101, 97, 100, 101, 114, 115]   -- "Access-Control-Request-Headers"

/-! ## Small string helpers -/

def isSpaceByte (b : UInt8) : Bool := b = 9 ∨ b = 10 ∨ b = 11 ∨ b = 12 ∨ b = 13 ∨ b = 32

/-- `strings.TrimSpace` on ASCII input. -/
def trimSpace (s : Bytes) : Bytes :=
  ((s.dropWhile isSpaceByte).reverse.dropWhile isSpaceByte).reverse

/-- `strings.Split(s, ",")`. -/
def splitComma : Bytes → List Bytes
  | [] => [[]]
  | b :: rest =>
    if b = 44 then [] :: splitComma rest
    else match splitComma rest with
      | [] => [[b]]
      | x :: xs => (b :: x) :: xs

/-- `strings.EqualFold` restricted to ASCII. -/
def equalFoldAscii (a b : Bytes) : Bool := toLower a = toLower b

/-- `strconv.Itoa` for naturals. -/
def natToBytes (n : Nat) : Bytes := bytesOfString (toString n)
def intToBytes (n : Int) : Bytes := bytesOfString (toString n)

/-! ## CORS -/

structure Cors where
  origins : List Bytes := []
  anyOrigins : Bool := false
  deny : Bool := true
  allowHeaders : List Bytes := []
  allowHeadersString : Bytes := []
  anyHeaders : Bool := false
  exposedHeadersString : Bytes := []
  maxAgeString : Bytes := []
  allowCredentials : Bool := false
  deriving Repr, Inhabited

/-- `cors.sanitize` applied to the arguments of `WithCORS`. `none` = constructor error. -/
def Cors.sanitize (origins allowHeaders exposed : List Bytes) (maxAge : Int) (cred : Bool) : Option Cors :=
  let anyOrigins := origins.contains [42]
  let anyHeaders := allowHeaders.contains [42]
  let ahs : Bytes :=
    if anyHeaders then bytesOfString "*," ++ hAuthorization
    else if allowHeaders.length > 0 then joinWith [44] allowHeaders else []
  let ehs : Bytes := if exposed.length > 0 then joinWith [44] exposed else []
  if maxAge < -1 then none
  else if anyOrigins ∧ cred then none
  else some {
    origins := origins, anyOrigins := anyOrigins, deny := origins.length = 0,
    allowHeaders := allowHeaders, allowHeadersString := ahs, anyHeaders := anyHeaders,
    exposedHeadersString := ehs,
    maxAgeString := if maxAge = 0 then [] else intToBytes maxAge,
    allowCredentials := cred }

/-- `cors.headerIsAllowed` (with the D11 repair: names are compared case-insensitively). -/
def Cors.headerIsAllowed (c : Cors) (reqHeaders : Hdr) : Bool :=
  if c.anyHeaders then true
  else
    let h := trimSpace (reqHeaders.get hACRH)
    if h = [] then true
    else (splitComma h).all (fun v => c.allowHeaders.any (fun a => equalFoldAscii a (trimSpace v)))

/-- The preflight part of `cors.handle`: the header map and whether the procedure goes on to the
origin part (`false` = one of the early `return`s). -/
def Cors.preflightPart (c : Cors) (nodeMethods : List Bytes) (nodeAllow : Bytes) (wh : Hdr)
    (method path : Bytes) (reqHeaders : Hdr) : Hdr × Bool :=
  let reqMethod := reqHeaders.get hACRM
  let preflight := method = mOPTIONS ∧ reqMethod ≠ [] ∧ path ≠ [42]
  if preflight then
    if ¬ nodeMethods.contains reqMethod then (wh, false)
    else
      let wh := (wh.set hACAM nodeAllow).add hVary hACRM
      if ¬ c.headerIsAllowed reqHeaders then (wh, false)
      else
        let wh := if c.allowHeadersString ≠ [] then (wh.set hACAH c.allowHeadersString).add hVary hACRH else wh
        let wh := if c.maxAgeString ≠ [] then wh.set hACMA c.maxAgeString else wh
        (wh, true)
  else (wh, true)

/-- `cors.handle`: the response header map after the procedure (with the D11 repair: `Vary` names
request headers). `nodeMethods`/`nodeAllow` are `node.Methods()` / `node.AllowHeader()`. -/
def Cors.handle (c : Cors) (nodeMethods : List Bytes) (nodeAllow : Bytes) (wh : Hdr)
    (method path : Bytes) (reqHeaders : Hdr) : Hdr :=
  if c.deny then wh
  else
    match c.preflightPart nodeMethods nodeAllow wh method path reqHeaders with
    | (wh, false) => wh
    | (wh, true) =>
      let origin := reqHeaders.get hOrigin
      if ¬ c.anyOrigins ∧ ¬ c.origins.contains origin then wh
      else
        let allowOrigin : Bytes := if c.anyOrigins then [42] else origin
        let wh := (wh.set hACAO allowOrigin).add hVary hOrigin
        let wh := if c.allowCredentials then wh.set hACAC (bytesOfString "true") else wh
        let wh := if c.exposedHeadersString ≠ [] then wh.set hACEH c.exposedHeadersString else wh
        wh

/-! ## Recorder model of `http.ResponseWriter` and `headResponse` -/

inductive Act where
  | setHeader (k v : Bytes)
  | addHeader (k v : Bytes)
  | delHeader (k : Bytes)
  | writeHeader (code : Nat)
  | write (n : Nat)
  deriving Repr, DecidableEq

/-- The harness's recorder: live header map, status at the first `WriteHeader`/`Write`, header
snapshot taken at that moment, number of body bytes delivered. -/
structure Rec where
  hdr : Hdr := []
  code : Option Nat := none
  snap : Option Hdr := none
  body : Nat := 0
  deriving Repr, Inhabited

/-- An informational status: `1xx` except `101 Switching Protocols`.  `WriteHeader` with such a status is not final
in net/http (it is sent at once and the server keeps waiting for the final status); the harness's recorder ignores it. -/
def informational (c : Nat) : Bool := decide (100 ≤ c) && decide (c ≤ 199) && c != 101

/-- `WriteHeader`: an informational status leaves the recorder as it was (no status, no snapshot); any other status
is final if it is the first one. -/
def Rec.writeHeader (r : Rec) (code : Nat) : Rec :=
  if informational code then r
  else
    match r.code with
    | some _ => r
    | none => { r with code := some code, snap := some r.hdr }

def Rec.write (r : Rec) (n : Nat) : Rec :=
  let r := r.writeHeader 200
  { r with body := r.body + n }

/-- Run a handler script directly against the recorder (a GET). -/
def runGet : List Act → Rec → Rec
  | [], r => r
  | .setHeader k v :: as, r => runGet as { r with hdr := r.hdr.set k v }
  | .addHeader k v :: as, r => runGet as { r with hdr := r.hdr.add k v }
  | .delHeader k :: as, r => runGet as { r with hdr := r.hdr.del k }
  | .writeHeader c :: as, r => runGet as (r.writeHeader c)
  | .write n :: as, r => runGet as (r.write n)

/-- Run the same script through `headResponse{size, wrote}` (a HEAD): `Write` only counts and sets
Content-Length on the live header map and fixes the status (D23 repair: a later `WriteHeader` is
ignored, as it is for GET); everything else is forwarded.  `WriteHeader(c)` with `wrote = false` is
forwarded and sets `wrote = !informational c` (D32 repair: `status < 100 || status > 199 || status == 101`);
with `wrote = true` it does nothing. -/
def runHead : List Act → Nat → Bool → Rec → Rec
  | [], _, _, r => r
  | .setHeader k v :: as, sz, wr, r => runHead as sz wr { r with hdr := r.hdr.set k v }
  | .addHeader k v :: as, sz, wr, r => runHead as sz wr { r with hdr := r.hdr.add k v }
  | .delHeader k :: as, sz, wr, r => runHead as sz wr { r with hdr := r.hdr.del k }
  | .writeHeader c :: as, sz, wr, r =>
    runHead as sz (if wr then true else !informational c) (if wr then r else r.writeHeader c)
  | .write n :: as, sz, _, r => runHead as (sz + n) true { r with hdr := r.hdr.set hContentLength (natToBytes (sz + n)) }

/-- The recovery function of the harness (`WithRecovery(f)`, `f` records the value and writes status 500). -/
def defaultRecActs : List Act := [.writeHeader 500]

/-- `http.Error(w, text, code)`: deletes Content-Length, sets Content-Type and X-Content-Type-Options, writes the header
and `text ++ "\n"`.  The status is whatever the option was configured with; an informational one (e.g. 103) is not
final, so the `Write` that follows sends the implicit 200 (`Rec.writeHeader`, `Rec.write`). The bundled options `WithStatusRecovery/WithWriteRecovery/WithLogRecovery/WithSLogRecovery(status, …)`
call it with `http.StatusText(status)`; `textLen` is the length of that text. -/
def httpErrorActs (code textLen : Nat) : List Act :=
  [.delHeader hContentLength,
   .setHeader hContentType (bytesOfString "text/plain; charset=utf-8"),
   .setHeader (bytesOfString "X-Content-Type-Options") (bytesOfString "nosniff"),
   .writeHeader code, .write (textLen + 1)]

/-- Length of `http.StatusText(code)`: net/http's table (an unknown code has the empty text); tied to the toolchain in use
by a regenerated fact over all codes 0..599 (`Mux/Ties/C16.lean`). -/
def statusTextLen : Nat → Nat
  | 100 => 8      -- Continue
  | 101 => 19      -- Switching Protocols
  | 102 => 10      -- Processing
  | 103 => 11      -- Early Hints
  | 200 => 2      -- OK
  | 201 => 7      -- Created
  | 202 => 8      -- Accepted
  | 203 => 29      -- Non-Authoritative Information
  | 204 => 10      -- No Content
  | 205 => 13      -- Reset Content
  | 206 => 15      -- Partial Content
  | 207 => 12      -- Multi-Status
  | 208 => 16      -- Already Reported
  | 226 => 7      -- IM Used
  | 300 => 16      -- Multiple Choices
  | 301 => 17      -- Moved Permanently
  | 302 => 5      -- Found
  | 303 => 9      -- See Other
  | 304 => 12      -- Not Modified
  | 305 => 9      -- Use Proxy
  | 307 => 18      -- Temporary Redirect
  | 308 => 18      -- Permanent Redirect
  | 400 => 11      -- Bad Request
  | 401 => 12      -- Unauthorized
  | 402 => 16      -- Payment Required
  | 403 => 9      -- Forbidden
  | 404 => 9      -- Not Found
  | 405 => 18      -- Method Not Allowed
  | 406 => 14      -- Not Acceptable
  | 407 => 29      -- Proxy Authentication Required
  | 408 => 15      -- Request Timeout
  | 409 => 8      -- Conflict
  | 410 => 4      -- Gone
  | 411 => 15      -- Length Required
  | 412 => 19      -- Precondition Failed
  | 413 => 24      -- Request Entity Too Large
  | 414 => 20      -- Request URI Too Long
  | 415 => 22      -- Unsupported Media Type
  | 416 => 31      -- Requested Range Not Satisfiable
  | 417 => 18      -- Expectation Failed
  | 418 => 12      -- I'm a teapot
  | 421 => 19      -- Misdirected Request
  | 422 => 20      -- Unprocessable Entity
  | 423 => 6      -- Locked
  | 424 => 17      -- Failed Dependency
  | 425 => 9      -- Too Early
  | 426 => 16      -- Upgrade Required
  | 428 => 21      -- Precondition Required
  | 429 => 17      -- Too Many Requests
  | 431 => 31      -- Request Header Fields Too Large
  | 451 => 29      -- Unavailable For Legal Reasons
  | 500 => 21      -- Internal Server Error
  | 501 => 15      -- Not Implemented
  | 502 => 11      -- Bad Gateway
  | 503 => 19      -- Service Unavailable
  | 504 => 15      -- Gateway Timeout
  | 505 => 26      -- HTTP Version Not Supported
  | 506 => 23      -- Variant Also Negotiates
  | 507 => 20      -- Insufficient Storage
  | 508 => 13      -- Loop Detected
  | 510 => 12      -- Not Extended
  | 511 => 31      -- Network Authentication Required
  | _ => 0

/-- The recorder after the recovery function ran on the writer it was handed: the plain writer, or the `headResponse`
wrapper when the panic happened below it (the deferred closure captures `w` by reference). -/
def recRec (acts : List Act) (headWrap : Bool) (hs : Hdr) : Rec :=
  if headWrap then runHead acts 0 false { hdr := hs } else runGet acts { hdr := hs }

/-! ## TRACE helper -/

/-- `html.EscapeString`. -/
def htmlEscape : Bytes → Bytes
  | [] => []
  | b :: rest =>
    (if b = 60 then bytesOfString "&lt;"
     else if b = 62 then bytesOfString "&gt;"
     else if b = 38 then bytesOfString "&amp;"
     else if b = 39 then bytesOfString "&#39;"
     else if b = 34 then bytesOfString "&#34;"
     else [b]) ++ htmlEscape rest

/-- `trace.Trace` given the result of `httputil.DumpRequest` (`none` = it failed); with the D17
repair the Content-Type is set before the header is written. Returns the recorder and the body. -/
def traceHelper (dump : Option Bytes) (r : Rec) : Rec × Bytes :=
  match dump with
  | none => (r, [])
  | some text =>
    let r := { r with hdr := r.hdr.set hContentType (bytesOfString "message/http") }
    let r := r.writeHeader 200
    let body := htmlEscape text
    (r.write body.length, body)

end Mux
