/-
  Mux.Model.Router — transliteration of the root package: `Router` (router.go), façades
  `Prefix`/`Resource`, matchers (match.go), `Group` (group.go), `URL`/`CheckSyntax` (mux.go).
-/
import Mux.Model.Http
namespace Mux

/-! ## Router -/

structure Router where
  tree : Tree
  ms : List Nat := []
  cors : Cors := {}
  urlDomain : Bytes := []
  recover : Bool := false
  /-- what the recovery function does with the `ResponseWriter` it is handed -/
  recActs : List Act := defaultRecActs
  deriving Repr, Inhabited

/-- Options of `NewRouter` that the model knows. `cors = none` ↔ no `WithCORS` option. -/
structure RouterCfg where
  name : Bytes
  trace : Bool := false
  ic : Interceptors := []
  cors : Cors := {}
  urlDomain : Bytes := []
  recover : Bool := false
  recActs : List Act := defaultRecActs
  /-- the `notFound` argument of `NewRouter` (`Group.New` passes the group's own) -/
  notFoundBase : Base := .notFound
  deriving Repr, Inhabited

/-- `options.sanitize` on the URL domain: one trailing `/` is removed. -/
def sanitizeDomain (d : Bytes) : Bytes :=
  match d.getLast? with
  | some 47 => d.dropLast
  | _ => d

/-- `NewRouter` (an empty name makes `tree.New` panic with a message: `none`). -/
def Router.new (cfg : RouterCfg) : Option Router :=
  if cfg.name = [] then none
  else some {
    tree := Tree.new cfg.name cfg.ic { base := cfg.notFoundBase } (if cfg.trace then some { base := .trace } else none),
    cors := cfg.cors, urlDomain := sanitizeDomain cfg.urlDomain, recover := cfg.recover, recActs := cfg.recActs }

/-- `Router.Handle`: `tree.Add(pattern, h, slices.Concat(m, r.ms), methods...)`. -/
def Router.handle (r : Router) (pattern : Bytes) (h : Nat) (m : List Nat) (methods : List Bytes) :
    Except Err Router := do
  let t ← r.tree.add pattern { base := .user h } (m ++ r.ms) methods
  return { r with tree := t }

def Router.remove (r : Router) (pattern : Bytes) (methods : List Bytes) : Except Err Router := do
  let t ← r.tree.remove pattern methods
  return { r with tree := t }

/-- `Router.Clean` / `Prefix.Clean` (`tree.Clean(prefix)`). -/
def Router.clean (r : Router) (pre : Bytes) : Except Err Router := do
  let t ← r.tree.clean pre
  return { r with tree := t }

/-- `Router.Use`. -/
def Router.use (r : Router) (m : List Nat) : Router :=
  { r with ms := r.ms ++ m, tree := r.tree.applyMiddleware m }

def Router.routes (r : Router) : List (Bytes × List Bytes) := r.tree.routes

/-- `mux.URL` / the non-strict branch. -/
def urlNonStrict (pattern : Bytes) (ps : AMap Bytes) : Except Err Bytes :=
  Interceptors.url [] pattern ps

def muxURL (pattern : Bytes) (ps : AMap Bytes) : Except Err Bytes :=
  if ps.length = 0 then .ok pattern else urlNonStrict pattern ps

/-- `mux.CheckSyntax`. -/
def checkSyntax (pattern : Bytes) : Except Err Unit := do
  let _ ← split [] pattern
  return ()

/-- `Router.URL` (with the D10 repair: strict mode is decided before the empty-params shortcut). -/
def Router.url (env : Env) (r : Router) (strict : Bool) (pattern : Bytes) (ps : AMap Bytes) : Except Err Bytes := do
  let body ←
    if pattern.length = 0 then pure []
    else if strict then r.tree.url env pattern ps
    else if ps.length = 0 then pure pattern
    else urlNonStrict pattern ps
  return r.urlDomain ++ body

/-! ## Serving -/

structure Req where
  method : Bytes
  path : Bytes
  host : Bytes := []
  headers : Hdr := []
  /-- result of `mime.ParseMediaType(Accept)`: `none` = error -/
  acceptParams : Option (AMap Bytes) := none
  deriving Repr, Inhabited

/-- What `CallFunc` receives. -/
structure Call where
  handler : Handler
  node : Option Node
  ok : Bool
  params : Params
  routerName : Bytes
  respHeaders : Hdr          -- `w.Header()` when the handler is called (CORS already applied)
  headWrap : Bool            -- `w` is a `headResponse`
  path : Bytes               -- `req.URL.Path` as the handler sees it
  recover : Bool := false    -- a deferred `recover()` surrounds the call
  recActs : List Act := defaultRecActs   -- what the recovery function writes
  deriving Repr

inductive ServeRes where
  | fault (site : Nat) (recover : Bool)
  | unsupported
  | call (c : Call)
  deriving Repr

/-- `Router.serveContext` up to the call of the handler. `ps` are the parameters already in the
context (set by a matcher). -/
def Router.serveContext (env : Env) (r : Router) (req : Req) (ps : Params) : ServeRes :=
  match r.tree.handler env req.path ps req.method with
  | .fault s => .fault s r.recover
  | .unsupported => .unsupported
  | .res f =>
    let wh : Hdr :=
      if f.ok then
        match f.node with
        | some n => r.cors.handle n.methods n.allow [] req.method req.path req.headers
        | none => []
      else []
    .call { handler := f.handler, node := f.node, ok := f.ok, params := f.params,
            routerName := r.tree.name, respHeaders := wh,
            headWrap := f.ok ∧ req.method = mHEAD, path := req.path, recover := r.recover, recActs := r.recActs }

/-! ## Façades: a `Prefix`/`Resource` is a pattern and a middleware list -/

structure Facade where
  pattern : Bytes
  ms : List Nat
  deriving Repr, Inhabited

/-- `Router.Prefix` / `Router.Resource`. -/
def Facade.ofRouter (pattern : Bytes) (m : List Nat) : Facade := { pattern := pattern, ms := m }
/-- `Prefix.Prefix` / `Prefix.Resource`: `p.router.Prefix(p.pattern+prefix, Concat(m, p.ms)...)`. -/
def Facade.sub (p : Facade) (pattern : Bytes) (m : List Nat) : Facade :=
  { pattern := p.pattern ++ pattern, ms := m ++ p.ms }
/-- `Prefix.Handle`: `p.router.Handle(p.pattern+pattern, h, Concat(m, p.ms), methods...)`;
`Resource.Handle` is the case `pattern = ""`. -/
def Facade.handle (p : Facade) (r : Router) (pattern : Bytes) (h : Nat) (m : List Nat) (methods : List Bytes) :
    Except Err Router :=
  r.handle (p.pattern ++ pattern) h (m ++ p.ms) methods
def Facade.remove (p : Facade) (r : Router) (pattern : Bytes) (methods : List Bytes) : Except Err Router :=
  r.remove (p.pattern ++ pattern) methods
/-- `Prefix.Clean` = `tree.Clean(prefix)`; `Resource.Clean` = `Remove(pattern)`. -/
def Facade.prefixClean (p : Facade) (r : Router) : Except Err Router := r.clean p.pattern
def Facade.resourceClean (p : Facade) (r : Router) : Except Err Router := r.remove p.pattern []
def Facade.url (env : Env) (p : Facade) (r : Router) (strict : Bool) (pattern : Bytes) (ps : AMap Bytes) :
    Except Err Bytes :=
  r.url env strict (p.pattern ++ pattern) ps

/-! ## Matchers -/

/-- `Hosts`: a private tree named "host" whose handlers are never called. -/
structure Hosts where
  tree : Tree
  deriving Repr, Inhabited

/-- `NewHosts` without domains. `tree.New("host", lock, i, nil, false, f, f)`: the `trace`
argument `false` is a non-nil `any`, so the tree has `hasTrace = true`. -/
def Hosts.empty : Hosts :=
  { tree := Tree.new (bytesOfString "host") [] { base := .nil } (some { base := .nil }) .nil .nil }

/-- `Hosts.Add` of one domain. -/
def Hosts.add (hs : Hosts) (domain : Bytes) : Except Err Hosts := do
  let t ← hs.tree.add (toLower domain) { base := .hostEmpty } [] [mGET]
  return { hs with tree := t }

/-- `Hosts.Delete` (with the D13 repair: the name is lower-cased). -/
def Hosts.delete (hs : Hosts) (domain : Bytes) : Except Err Hosts := do
  let t ← hs.tree.remove (toLower domain) []
  return { hs with tree := t }

/-- `Hosts.RegisterInterceptor`. `none` = the rule exists already (panic with a message). -/
def Hosts.registerInterceptor (hs : Hosts) (id : IcptId) (rule : Bytes) : Option Hosts :=
  if (hs.tree.ic.find rule).isSome then none
  else some { hs with tree := { hs.tree with ic := hs.tree.ic ++ [(rule, id)] } }

/-- `validOptionalPort`. -/
def validOptionalPort (port : Bytes) : Bool :=
  match port with
  | [] => true
  | c :: rest => c = 58 ∧ rest.all (fun b => 48 ≤ b ∧ b ≤ 57)

/-- Host normalisation of `Hosts.Match`. -/
def normHost (h : Bytes) : Bytes :=
  let h := match lastIndexByte 58 h with
    | some i => if validOptionalPort (h.drop i) then h.take i else h
    | none => h
  let h := if hasPrefix h [91] ∧ hasSuffix h [93] then (h.take (h.length - 1)).drop 1 else h
  toLower h

inductive MatchOut where
  | fault (site : Nat)
  | unsupported
  | reject (path : Bytes) (ps : Params)      -- what a rejecting matcher leaves behind
  | accept (path : Bytes) (ps : Params)
  deriving Repr

/-- `Hosts.Match`. -/
def Hosts.match (env : Env) (hs : Hosts) (host : Bytes) (path : Bytes) (ps : Params) : MatchOut :=
  if ¬ isAscii host then .unsupported
  else
    match hs.tree.handler env (normHost host) ps mGET with
    | .fault s => .fault s
    | .unsupported => .unsupported
    | .res f => if f.ok then .accept path f.params else .reject path f.params

/-- `NewPathVersion`'s normalisation. `none` = an empty version (panic with a message). -/
def normVersion (v : Bytes) : Option Bytes :=
  match v with
  | [] => none
  | c :: _ =>
    let v := if c ≠ 47 then 47 :: v else v
    let v := if v.getLast? ≠ some 47 then v ++ [47] else v
    some v

/-- `pathVersion.Match`. -/
def pathVersionMatch (param : Bytes) : List Bytes → Bytes → Params → Except Err (Option (Bytes × Params))
  | [], _, _ => .ok none
  | ver :: vers, p, ps =>
    if hasPrefix p ver then do
      let vv ← sliceE 300 ver 0 (ver.length - 1)
      let p' := if hasPrefix p vv then p.drop vv.length else p        -- strings.TrimPrefix
      let ps' := if param ≠ [] then ps.set param vv else ps
      return some (p', ps')
    else pathVersionMatch param vers p ps

/-- `headerVersion.Match`. -/
def headerVersionMatch (param key : Bytes) (versions : List Bytes) (req : Req) (ps : Params) : Option Params :=
  let hv := req.headers.get hAccept
  if hv = [] then none
  else
    match req.acceptParams with
    | none => none
    | some mp =>
      let ver := (mp.get? key).getD []
      if versions.contains ver then some (if param ≠ [] then ps.set param ver else ps) else none

inductive Matcher where
  | any
  | hosts (id : Nat)
  | pathVersion (param : Bytes) (versions : List Bytes)      -- already normalised
  | headerVersion (param key : Bytes) (versions : List Bytes)
  | and (ms : List Matcher)
  | or (ms : List Matcher)
  deriving Repr, Inhabited

mutual
/-- `Matcher.Match`: the request path and the parameters after the call. -/
def Matcher.run (env : Env) (hostsTab : Nat → Option Hosts) : Matcher → Req → Bytes → Params → MatchOut
  | .any, _, path, ps => .accept path ps
  | .hosts id, req, path, ps =>
    match hostsTab id with
    | some hs => hs.match env req.host path ps
    | none => .fault 310
  | .pathVersion param vers, _, path, ps =>
    match pathVersionMatch param vers path ps with
    | .error (.fault s) => .fault s
    | .error _ => .fault 311
    | .ok none => .reject path ps
    | .ok (some (p', ps')) => .accept p' ps'
  | .headerVersion param key vers, req, path, ps =>
    match headerVersionMatch param key vers req ps with
    | some ps' => .accept path ps'
    | none => .reject path ps
  | .and ms, req, path, ps =>
    -- D12 repair: a rejecting And restores the path and the parameters it was entered with
    match runAnd env hostsTab ms req path ps with
    | .reject _ _ => .reject path ps
    | r => r
  | .or ms, req, path, ps => runOr env hostsTab ms req path ps
/-- The loop of `AndMatcher`. -/
def runAnd (env : Env) (hostsTab : Nat → Option Hosts) : List Matcher → Req → Bytes → Params → MatchOut
  | [], _, path, ps => .accept path ps
  | m :: ms, req, path, ps =>
    match Matcher.run env hostsTab m req path ps with
    | .accept p' ps' => runAnd env hostsTab ms req p' ps'
    | r => r
def runOr (env : Env) (hostsTab : Nat → Option Hosts) : List Matcher → Req → Bytes → Params → MatchOut
  | [], _, path, ps => .reject path ps
  | m :: ms, req, path, ps =>
    match Matcher.run env hostsTab m req path ps with
    | .reject p' ps' => runOr env hostsTab ms req p' ps'
    | r => r
end

/-! ## Group

A `Group` holds pointers to routers; in the model these are ids into a router table, so that a
router can still be modified through its own handle after it was added to a group. -/

abbrev RTab := List (Nat × Router)

def RTab.get? (rt : RTab) (id : Nat) : Option Router := (List.find? (fun e => e.1 = id) rt).map (·.2)
def RTab.set (rt : RTab) (id : Nat) (r : Router) : RTab :=
  if rt.any (·.1 = id) then rt.map (fun e => if e.1 = id then (id, r) else e) else rt ++ [(id, r)]

structure Group where
  routers : List (Nat × Matcher) := []
  ms : List Nat := []
  notFound : Handler := { base := .groupNotFound }
  recover : Bool := false
  recActs : List Act := defaultRecActs
  deriving Repr, Inhabited

def Group.names (g : Group) (rt : RTab) : List Bytes :=
  g.routers.filterMap (fun e => (rt.get? e.1).map (·.tree.name))

/-- `Group.Add`: `none` = duplicate name (panic with a message). -/
def Group.add (g : Group) (rt : RTab) (m : Matcher) (rid : Nat) : Option (Group × RTab) :=
  match rt.get? rid with
  | none => none
  | some r =>
    if (g.names rt).contains r.tree.name then none
    else some ({ g with routers := g.routers ++ [(rid, m)] }, rt.set rid (r.use g.ms))

/-- `Group.Use`. -/
def Group.use (g : Group) (rt : RTab) (m : List Nat) : Group × RTab :=
  let rt' := g.routers.foldl (fun rt e =>
    match rt.get? e.1 with
    | some r => rt.set e.1 (r.use m)
    | none => rt) rt
  ({ g with notFound := wrapWith g.notFound [] [] [] m, ms := g.ms ++ m }, rt')

def Group.remove (g : Group) (rt : RTab) (name : Bytes) : Group :=
  { g with routers := g.routers.filter (fun e =>
      match rt.get? e.1 with
      | some r => r.tree.name ≠ name
      | none => true) }

/-- `Group.ServeHTTP` up to the call of the handler. -/
def Group.serve (env : Env) (hostsTab : Nat → Option Hosts) (rt : RTab) (g : Group) (req : Req) : ServeRes :=
  go g.routers req.path
where
  /-- the loop over `g.routers`; `path` is `r.URL.Path` as the matchers so far left it -/
  go : List (Nat × Matcher) → Bytes → ServeRes
    | [], path => .call { handler := g.notFound, node := none, ok := false, params := [], routerName := [],
                          respHeaders := [], headWrap := false, path := path, recover := g.recover, recActs := g.recActs }
    | (rid, m) :: rest, path =>
      match m.run env hostsTab req path [] with
      | .fault s => .fault s false                  -- a fault inside a matcher is outside every recover
      | .unsupported => .unsupported
      | .accept p ps =>
        match rt.get? rid with
        | some r => r.serveContext env { req with path := p } ps
        | none => .fault 320 false
      | .reject p _ => go rest p                     -- `ctx.Reset()` clears the parameters

end Mux
