/-
  Mux.Model.Syntax — transliteration of `internal/syntax` (syntax.go, segment.go, interceptor.go).
-/
import Mux.Model.Regex
namespace Mux

/-- `syntax.Type`, in priority order. -/
inductive Kind where
  | str | icpt | rx | named
  deriving DecidableEq, Repr, Inhabited

/-- The numeric value of the Go constant (tied to the source by `Mux.Ties`). -/
def Kind.rank : Kind → Nat
  | .str => 0 | .icpt => 1 | .rx => 2 | .named => 3

abbrev IcptId := Nat

/-- `syntax.Interceptors`: rule text ↦ interceptor function (by id). -/
abbrev Interceptors := List (Bytes × IcptId)

def Interceptors.find (ic : Interceptors) (rule : Bytes) : Option IcptId :=
  (List.find? (fun e => e.1 = rule) ic).map (·.2)

/-- What the model is parametric in: the interceptor functions. Theorems quantify over `Env`. -/
structure Env where
  icpt : IcptId → Bytes → Bool

/-- The bundled interceptors. -/
def matchAny (p : Bytes) : Bool := p.length > 0
def matchDigit (p : Bytes) : Bool := p.all (fun c => 48 ≤ c ∧ c ≤ 57) && p.length > 0
def matchWord (p : Bytes) : Bool :=
  p.all (fun c => (48 ≤ c ∧ c ≤ 57) ∨ (97 ≤ c ∧ c ≤ 122) ∨ (65 ≤ c ∧ c ≤ 90)) && p.length > 0

/-- `syntax.Segment`. `name` is stored without the `-` flag; `re` caches the parsed rule of a
regexp segment (Go: `expr`). `ambiguousLength` is a function of the other fields. -/
structure Seg where
  value : Bytes
  kind : Kind := .str
  name : Bytes := []
  ignoreName : Bool := false
  rule : Bytes := []
  suffix : Bytes := []
  endpoint : Bool := false
  re : Re := .eps
  deriving Repr, Inhabited

def Seg.ambiguousLength (s : Seg) : Nat :=
  if s.kind = .str then 0 else   -- never calculated for string segments (zero value)
  2 + (if s.ignoreName then 1 else 0) + (if s.rule ≠ [] then s.rule.length + 1 else 0) + s.suffix.length

def Seg.ambiguousLen (s : Seg) : Nat := s.ambiguousLength + s.name.length

/-- `cleanName`: strips a leading `-`. Faults on an empty name (`seg.Name[0]`). -/
def cleanName (name : Bytes) : Except Err (Bytes × Bool) :=
  match name with
  | [] => .error (.fault 101)
  | b :: rest => if b = ignoreByte then .ok (rest, true) else .ok (b :: rest, false)

def maxInt16 : Nat := 32767

/-- Result of `regexp.Compile("(?P<name>" + rule + ")" + QuoteMeta(suffix))` in the model. -/
def compileRule (name : Bytes) (ign : Bool) (rule : Bytes) : Except Err Re :=
  match parseRule rule with
  | .ok re => if ign ∨ validGroupName name then .ok re else .error .regexp
  | .bad => .error .regexp
  | .unsupported => .error .unsupported

/-- `Interceptors.NewSegment`. -/
def newSegment (ic : Interceptors) (val : Bytes) : Except Err Seg := do
  if val.length > maxInt16 then throw .tooLong
  match indexByte startByte val, indexByte endByte val with
  | some start, some end_ =>
    let sep := indexByte separatorByte val
    let sepBad : Bool := match sep with
      | some sp => sp > 0 ∧ start + 1 = sp
      | none => false
    if start > end_ ∨ start + 1 = end_ ∨ sepBad then
      throw .syntax
    let last ← atE 102 val (val.length - 1)
    let endpoint := last = endByte
    let suffix ← sliceE 103 val (end_ + 1) val.length
    let namedCase : Bool := match sep with
      | none => true
      | some sp => sp + 1 = end_ ∨ sp > end_
    if namedCase then
      let rawName ← match sep with
        | some sp => if sp < end_ then sliceE 104 val (start + 1) sp else sliceE 105 val (start + 1) end_
        | none => sliceE 105 val (start + 1) end_
      let (name, ign) ← cleanName rawName
      return { value := val, kind := .named, name := name, ignoreName := ign, suffix := suffix, endpoint := endpoint }
    else
      let sp := sep.getD 0   -- `sep` is `some` here
      let rule ← sliceE 106 val (sp + 1) end_
      let rawName ← sliceE 107 val (start + 1) sp
      let (name, ign) ← cleanName rawName
      match ic.find rule with
      | some _ =>
        return { value := val, kind := .icpt, name := name, ignoreName := ign, rule := rule, suffix := suffix, endpoint := endpoint }
      | none =>
        -- a non-ASCII suffix may be invalid UTF-8, which regexp.Compile rejects: outside the model
        if ¬ isAscii suffix then throw .unsupported
        let re ← compileRule name ign rule
        return { value := val, kind := .rx, name := name, ignoreName := ign, rule := rule, suffix := suffix, re := re }
  | _, _ => return { value := val }

/-- `splitString`: cut before every `{` that is not inside an open `{ … }`. -/
def splitAux : Bool → Bytes → Bytes → List Bytes
  | _, cur, [] => [cur]
  | false, cur, b :: rest =>
    if b = startByte then
      (if cur = [] then splitAux true [b] rest else cur :: splitAux true [b] rest)
    else splitAux false (cur ++ [b]) rest
  | true, cur, b :: rest =>
    if b = endByte then splitAux false (cur ++ [b]) rest else splitAux true (cur ++ [b]) rest

def splitString (s : Bytes) : List Bytes := splitAux false [] s

/-- The loop of `Interceptors.Split`. -/
def splitLoop (ic : Interceptors) : List Bytes → Bool → List Bytes → Except Err (List Seg)
  | [], _, _ => .ok []
  | s :: ss, lastFlag, names => do
    let first ← atE 110 s 0
    if lastFlag ∧ first = startByte then throw .adjacent
    let last ← atE 111 s (s.length - 1)
    let seg ← newSegment ic s
    if seg.kind ≠ .str ∧ names.contains seg.name then throw .dupName
    let names' := if seg.kind ≠ .str then seg.name :: names else names
    let rest ← splitLoop ic ss (last = endByte) names'
    return seg :: rest

/-- `Interceptors.Split`. -/
def split (ic : Interceptors) (pattern : Bytes) : Except Err (List Seg) :=
  if pattern = [] then .error .empty else splitLoop ic (splitString pattern) false []

/-- `Segment.IsAmbiguous`. -/
def Seg.isAmbiguous (s s2 : Seg) : Bool :=
  let same := s.endpoint = s2.endpoint ∧ s.kind = s2.kind ∧ s.rule = s2.rule ∧ s.suffix = s2.suffix
  if s.ignoreName ≠ s2.ignoreName then same
  else s.name ≠ s2.name ∧ s.ambiguousLength = s2.ambiguousLength ∧ same

/-- `Segment.IsAmbiguousPrefix` (D33 repair): `s` is the upper half of a parameter node that was split — the same token as
`s2` up to the name (or the `-` flag), its literal text a proper prefix of `s2`'s. -/
def Seg.isAmbiguousPrefix (s s2 : Seg) : Bool :=
  s.kind ≠ .str ∧ s.kind = s2.kind ∧ s.rule = s2.rule ∧ (s.name ≠ s2.name ∨ s.ignoreName ≠ s2.ignoreName) ∧
  s.suffix.length < s2.suffix.length ∧ hasPrefix s2.suffix s.suffix

/-- State of the `longestPrefix` scan: `(startIndex, endIndex, inBrace)`; indices are `Int` because
Go starts them at -10. -/
def lpLoop : Bytes → Bytes → Nat → Int → Int → Bool → Int
  | a :: s1, b :: s2, i, startIdx, endIdx, inBrace =>
    if a ≠ b then
      (if inBrace ∨ endIdx + 1 = (i : Int) then startIdx else (i : Int))
    else if a = startByte then lpLoop s1 s2 (i + 1) (if inBrace then startIdx else (i : Int)) endIdx true
    else if a = endByte then lpLoop s1 s2 (i + 1) startIdx i false
    else lpLoop s1 s2 (i + 1) startIdx endIdx inBrace
  | _, _, i, startIdx, endIdx, _ =>
    -- one string exhausted: `i = l`
    if endIdx = (i : Int) - 1 then startIdx else (i : Int)

/-- `longestPrefix` (with the D22 repair: compare before updating the brace state; and the D28 repair: a `{` inside a
token does not move the start of the token). -/
def longestPrefix (s1 s2 : Bytes) : Int := lpLoop s1 s2 0 (-10) (-10) false

/-- `Segment.Similarity`. -/
def Seg.similarity (seg s1 : Seg) : Int :=
  if s1.value = seg.value then -1
  else if s1.kind ≠ seg.kind then 0
  else longestPrefix s1.value seg.value

/-- `Segment.Split`. -/
def Seg.splitAt (ic : Interceptors) (seg : Seg) (pos : Nat) : Except Err (Seg × Seg) := do
  let v1 ← sliceE 120 seg.value 0 pos
  let s1 ← newSegment ic v1
  let v2 ← sliceE 121 seg.value pos seg.value.length
  let s2 ← newSegment ic v2
  return (s1, s2)

/-- The interceptor function of a segment. Named segments accept everything. -/
def Seg.accepts (env : Env) (ic : Interceptors) (s : Seg) (v : Bytes) : Bool :=
  match s.kind with
  | .icpt => match ic.find s.rule with
    | some id => env.icpt id v
    | none => false
  | _ => true

/-- Search of `Segment.Match` for named/interceptor segments with a non-empty suffix (with the
D19 repair: after a rejected candidate the search resumes one byte further).  `acc` is the text
before the current position. -/
def scanSuffix (ok : Bytes → Bool) (suffix : Bytes) : Bytes → Bytes → Option (Bytes × Bytes)
  | acc, [] => if suffix.isPrefixOf [] ∧ ok acc then some (acc, []) else none
  | acc, b :: rest =>
    if suffix.isPrefixOf (b :: rest) ∧ ok acc then some (acc, (b :: rest).drop suffix.length)
    else scanSuffix ok suffix (acc ++ [b]) rest

inductive MatchRes where
  | no
  | yes (captured : Bytes) (rest : Bytes)
  | unsupported
  deriving Repr

/-- `Segment.Match` as a function of the path: the captured text (for string segments `[]`) and the
remaining path. -/
def Seg.match (env : Env) (ic : Interceptors) (s : Seg) (path : Bytes) : MatchRes :=
  match s.kind with
  | .str => if hasPrefix path s.value then .yes [] (path.drop s.value.length) else .no
  | .icpt | .named =>
    if s.endpoint then
      (if s.accepts env ic path then .yes path [] else .no)
    else
      match scanSuffix (s.accepts env ic) s.suffix [] path with
      | some (cap, rest) => .yes cap rest
      | none => .no
  | .rx =>
    if (s.re.wide ∧ ¬ isAscii path) ∨ ¬ isAscii s.suffix then .unsupported
    else match rxMatch s.re s.suffix path with
      | some (cap, rest) => .yes cap rest
      | none => .no

/-- `Segment.Valid` (with the D10 repair: the match must start at 0). -/
def Seg.valid (env : Env) (ic : Interceptors) (s : Seg) (v : Bytes) : Option Bool :=
  match s.kind with
  | .icpt => some (s.accepts env ic v)
  | .rx =>
    if (s.re.wide ∧ ¬ isAscii v) ∨ ¬ isAscii s.suffix then none
    else match rxMatch s.re s.suffix (v ++ s.suffix) with
      | some (_, []) => some true
      | _ => some false
  | _ => some true

/-- `Interceptors.URL`: non-strict reverse building. -/
def urlLoop (ps : AMap Bytes) : List Seg → Except Err Bytes
  | [] => .ok []
  | seg :: segs =>
    if seg.kind = .str then do
      let r ← urlLoop ps segs
      return seg.value ++ r
    else
      match ps.get? seg.name with
      | none => .error .missingParam
      | some v => do
        let r ← urlLoop ps segs
        return v ++ seg.suffix ++ r

def Interceptors.url (ic : Interceptors) (pattern : Bytes) (ps : AMap Bytes) : Except Err Bytes :=
  if pattern = [] then .ok [] else do
    let segs ← split ic pattern
    urlLoop ps segs

end Mux
