/-
  Mux.Model.Basic — byte strings and Go-string primitives used by the model.

  Go strings are byte strings; request paths, patterns, hosts and header values are modelled as
  `List UInt8`.  Core Lean only (no Mathlib) so that the driver links as a `lean_exe`.
-/
namespace Mux

abbrev Bytes := List UInt8

/-- Special bytes of the pattern syntax (`syntax.go:42-47`). Regenerated and tied in `Mux.Ties`. -/
def startByte : UInt8 := 123      -- '{'
def endByte : UInt8 := 125        -- '}'
def separatorByte : UInt8 := 58   -- ':'
def ignoreByte : UInt8 := 45      -- '-'
def slashByte : UInt8 := 47       -- '/'

/-- Errors of registration / URL building, mapped to the same small enum the harness prints.
`fault` stands for a Go runtime fault (index/slice out of range, nil map write, nil call). -/
inductive Err where
  | empty          -- "参数 str 不能为空"
  | adjacent       -- two parameters without literal text between them
  | syntax         -- `{}`, `}{`, `{:rule}`
  | dupName        -- duplicate parameter name
  | regexp         -- regexp.Compile failed
  | tooLong        -- segment longer than MaxInt16
  | reserved       -- OPTIONS/HEAD/(TRACE) given by hand
  | unknownMethod
  | dupMethod      -- pattern+method exists already (or listed twice)
  | ambiguous
  | missingParam
  | notRoute       -- strict URL: pattern is not a live route
  | badValue       -- strict URL: value violates the constraint
  | unsupported    -- outside the modelled domain (regexp dialect); excluded from the tie
  | fault (site : Nat)
  deriving DecidableEq, Repr, Inhabited

def Err.isFault : Err → Bool
  | .fault _ => true
  | _ => false

def Err.toString : Err → String
  | .empty => "empty" | .adjacent => "adjacent" | .syntax => "syntax" | .dupName => "dup-name"
  | .regexp => "regexp" | .tooLong => "too-long" | .reserved => "reserved-method"
  | .unknownMethod => "unknown-method" | .dupMethod => "dup-method" | .ambiguous => "ambiguous"
  | .missingParam => "missing-param" | .notRoute => "not-a-route" | .badValue => "bad-value"
  | .unsupported => "unsupported" | .fault n => s!"fault:{n}"

/-- `strings.IndexByte`. -/
def indexByte (b : UInt8) : Bytes → Option Nat
  | [] => none
  | c :: cs => if c = b then some 0 else (indexByte b cs).map (· + 1)

/-- `strings.LastIndexByte`. -/
def lastIndexByte (b : UInt8) (s : Bytes) : Option Nat :=
  match indexByte b s.reverse with
  | none => none
  | some i => some (s.length - 1 - i)

/-- `s[lo:hi]` with Go's bounds check (`lo ≤ hi ≤ len`), fault site `site` otherwise. -/
def sliceE (site : Nat) (s : Bytes) (lo hi : Nat) : Except Err Bytes :=
  if lo ≤ hi ∧ hi ≤ s.length then .ok ((s.take hi).drop lo) else .error (.fault site)

/-- `s[i]` with bounds check. -/
def atE (site : Nat) (s : Bytes) (i : Nat) : Except Err UInt8 :=
  match s[i]? with
  | some b => .ok b
  | none => .error (.fault site)

/-- `strings.HasPrefix s p`. -/
def hasPrefix (s p : Bytes) : Bool := p.isPrefixOf s

/-- `strings.HasSuffix s p`. -/
def hasSuffix (s p : Bytes) : Bool := p.reverse.isPrefixOf s.reverse

/-- `strings.Index s sub` (first occurrence). -/
def indexOf (sub : Bytes) : Bytes → Option Nat
  | [] => if sub = [] then some 0 else none
  | c :: cs => if sub.isPrefixOf (c :: cs) then some 0 else (indexOf sub cs).map (· + 1)

/-- ASCII lower-casing (`strings.ToLower` restricted to ASCII; non-ASCII bytes are left alone,
which agrees with Go only for ASCII input — see DESIGN §4.3). -/
def lowerByte (b : UInt8) : UInt8 := if 65 ≤ b ∧ b ≤ 90 then b + 32 else b
def toLower (s : Bytes) : Bytes := s.map lowerByte
def isAscii (s : Bytes) : Bool := s.all (· < 128)

/-- A Go `map[string]V` as an association list with unique keys. Iteration order is never
observed by the model. -/
abbrev AMap (V : Type) := List (Bytes × V)

namespace AMap
variable {V : Type}
def get? (m : AMap V) (k : Bytes) : Option V := (m.find? (·.1 = k)).map (·.2)
def contains (m : AMap V) (k : Bytes) : Bool := m.any (·.1 = k)
def erase (m : AMap V) (k : Bytes) : AMap V := m.filter (·.1 ≠ k)
def set (m : AMap V) (k : Bytes) (v : V) : AMap V :=
  if m.contains k then m.map (fun e => if e.1 = k then (k, v) else e) else m ++ [(k, v)]
def keys (m : AMap V) : List Bytes := m.map (·.1)
end AMap

def bytesOfString (s : String) : Bytes := s.toUTF8.toList

/-- Lexicographic comparison of byte strings (Go `<` on strings). -/
def bytesLt : Bytes → Bytes → Bool
  | [], [] => false
  | [], _ :: _ => true
  | _ :: _, [] => false
  | a :: as, b :: bs => if a < b then true else if b < a then false else bytesLt as bs

end Mux
