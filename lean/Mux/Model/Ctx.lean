/-
  Mux.Model.Ctx — `types.Context`: parameter accessors, Reset/Destroy/NewContext and the pool.
-/
import Mux.Model.Router
namespace Mux

structure Ctx where
  path : Bytes := []
  /-- `nil` map vs. allocated map is not observable through the accessors; one list models both -/
  params : Params := []
  routerName : Bytes := []
  hasNode : Bool := false
  deriving Repr, Inhabited, DecidableEq

namespace Ctx
def reset (_ : Ctx) : Ctx := {}
def get (c : Ctx) (k : Bytes) : Option Bytes := c.params.get? k
def count (c : Ctx) : Nat := c.params.length
def exists_ (c : Ctx) (k : Bytes) : Bool := (c.get k).isSome
def set (c : Ctx) (k v : Bytes) : Ctx := { c with params := c.params.set k v }
def delete (c : Ctx) (k : Bytes) : Ctx := { c with params := c.params.erase k }
/-- `Range` enumerates the map; order is unspecified, the driver sorts. -/
def range (c : Ctx) : List (Bytes × Bytes) := c.params
end Ctx

/-- Result of a strict accessor. -/
inductive Acc (α : Type) where
  | ok (v : α)
  | notExists
  | syntaxErr
  | rangeErr (v : α)       -- strconv returns the clamped value together with ErrRange
  deriving Repr, DecidableEq

def digitsVal : Bytes → Option Nat
  | [] => none
  | ds => if ds.all (fun b => 48 ≤ b ∧ b ≤ 57) then some (ds.foldl (fun a b => a * 10 + (b.toNat - 48)) 0) else none

def maxInt64 : Int := 9223372036854775807
def minInt64 : Int := -9223372036854775808
def maxUint64 : Nat := 18446744073709551615

/-- `strconv.ParseUint(s, 10, 64)`. -/
def parseUint (s : Bytes) : Acc Nat :=
  match digitsVal s with
  | none => .syntaxErr
  | some n => if n > maxUint64 then .rangeErr maxUint64 else .ok n

/-- `strconv.ParseInt(s, 10, 64)`. -/
def parseInt (s : Bytes) : Acc Int :=
  match s with
  | [] => .syntaxErr
  | c :: rest =>
    let (neg, ds) := if c = 43 then (false, rest) else if c = 45 then (true, rest) else (false, c :: rest)
    match digitsVal ds with
    | none => .syntaxErr
    | some n =>
      if ¬ neg ∧ (n : Int) > maxInt64 then .rangeErr maxInt64
      else if neg ∧ (n : Int) > -minInt64 then .rangeErr minInt64
      else .ok (if neg then -(n : Int) else (n : Int))

/-- `strconv.ParseBool`. -/
def parseBool (s : Bytes) : Acc Bool :=
  if s = bytesOfString "1" ∨ s = bytesOfString "t" ∨ s = bytesOfString "T" ∨ s = bytesOfString "TRUE"
      ∨ s = bytesOfString "true" ∨ s = bytesOfString "True" then .ok true
  else if s = bytesOfString "0" ∨ s = bytesOfString "f" ∨ s = bytesOfString "F" ∨ s = bytesOfString "FALSE"
      ∨ s = bytesOfString "false" ∨ s = bytesOfString "False" then .ok false
  else .syntaxErr

namespace Ctx
def string (c : Ctx) (k : Bytes) : Acc Bytes :=
  match c.get k with
  | some v => .ok v
  | none => .notExists
def mustString (c : Ctx) (k d : Bytes) : Bytes := (c.get k).getD d

def int (c : Ctx) (k : Bytes) : Acc Int :=
  match c.get k with
  | some v => parseInt v
  | none => .notExists
def mustInt (c : Ctx) (k : Bytes) (d : Int) : Int :=
  match c.get k with
  | some v => match parseInt v with
    | .ok x => x
    | _ => d
  | none => d

def uint (c : Ctx) (k : Bytes) : Acc Nat :=
  match c.get k with
  | some v => parseUint v
  | none => .notExists
def mustUint (c : Ctx) (k : Bytes) (d : Nat) : Nat :=
  match c.get k with
  | some v => match parseUint v with
    | .ok x => x
    | _ => d
  | none => d

def bool (c : Ctx) (k : Bytes) : Acc Bool :=
  match c.get k with
  | some v => parseBool v
  | none => .notExists
def mustBool (c : Ctx) (k : Bytes) (d : Bool) : Bool :=
  match c.get k with
  | some v => match parseBool v with
    | .ok x => x
    | _ => d
  | none => d

/-- `Float`/`MustFloat` with `strconv.ParseFloat` as a parameter: `pf v = some (ok?, text)`. -/
def float (pf : Bytes → Acc Bytes) (c : Ctx) (k : Bytes) : Acc Bytes :=
  match c.get k with
  | some v => pf v
  | none => .notExists
def mustFloat (pf : Bytes → Acc Bytes) (c : Ctx) (k : Bytes) (d : Bytes) : Bytes :=
  match c.get k with
  | some v => match pf v with
    | .ok x => x
    | _ => d
  | none => d
end Ctx

/-! ## The pool -/

def destroyMaxSize : Nat := 30

/-- `sync.Pool` as a bag of (dirty) contexts. `get` may hand out any of them or a fresh one; the
model takes the most recently put one (the driver never relies on which). -/
abbrev Pool := List Ctx

/-- `Context.Destroy`. -/
def Pool.destroy (p : Pool) (c : Ctx) : Pool :=
  if c.params.length ≤ destroyMaxSize then c :: p else p

/-- `NewContext`: whatever the pool hands out is reset. -/
def Pool.newContext (p : Pool) : Ctx × Pool :=
  match p with
  | [] => (({} : Ctx).reset, [])
  | c :: rest => (c.reset, rest)

end Mux
