/-
  Mux.Model.Call — what happens when `CallFunc` runs the selected handler: the harness's handlers
  are interpreted descriptions (scripts, panics), so the model can run them too.  Also the
  `defer recover()` control flow of `Router.serveContext` / `Group.ServeHTTP`.
-/
import Mux.Model.Ctx
namespace Mux

/-- Which user-supplied functions panic, and with which value (an id). -/
structure PanicCfg where
  handlers : List (Nat × Nat) := []     -- user handler id ↦ value
  mws : List (Nat × Nat) := []          -- middleware id ↦ value (panics at request time)
  bases : List (Nat × Nat) := []        -- base code ↦ value; see `Base.code`
  deriving Repr, Inhabited

def Base.code : Base → Nat
  | .user _ => 0 | .options => 1 | .notAllowed => 2 | .notFound => 3 | .trace => 4
  | .nil => 5 | .hostEmpty => 6 | .groupNotFound => 7

def lookupNat (l : List (Nat × Nat)) (k : Nat) : Option Nat := (l.find? (·.1 = k)).map (·.2)

abbrev Scripts := List (Nat × List Act)
def Scripts.get (s : Scripts) (hid : Nat) : List Act := ((s.find? (·.1 = hid)).map (·.2)).getD []

def hXTrace : Bytes := [88, 45, 84, 114, 97, 99, 101]   -- "X-Trace"

/-- The write script of a handler. `none` = calling it is a nil call (runtime fault). -/
def Handler.script (scripts : Scripts) (h : Handler) (allow : Bytes) : Option (List Act) :=
  match h.base with
  | .user id => some (scripts.get id)
  | .options => some [.setHeader hAllow allow]
  | .notAllowed => some [.setHeader hAllow allow, .writeHeader 405]
  | .notFound => some [.writeHeader 404]
  | .groupNotFound => some [.writeHeader 404]
  | .trace => some [.setHeader hXTrace [49], .writeHeader 200]
  | .nil => none
  | .hostEmpty => none

inductive PanicVal where
  | user (v : Nat)
  | fault                  -- a Go runtime error raised by mux itself
  deriving Repr, DecidableEq

/-- Result of `r.call(w, req, ctx, h)`: the recorder afterwards or the panic that escaped. -/
def runCall (pc : PanicCfg) (scripts : Scripts) (c : Call) : Except PanicVal Rec :=
  -- middlewares run outermost first; `wraps` is stored innermost first
  match (c.handler.wraps.reverse.filterMap (fun w => lookupNat pc.mws w.mw)).head? with
  | some v => .error (.user v)
  | none =>
    let basePanic : Option Nat :=
      match c.handler.base with
      | .user id => lookupNat pc.handlers id
      | b => lookupNat pc.bases b.code
    match basePanic with
    | some v => .error (.user v)
    | none =>
      let allow := match c.node with
        | some n => n.allow
        | none => []
      match c.handler.script scripts allow with
      | none => .error .fault
      | some acts =>
        let r0 : Rec := { hdr := c.respHeaders }
        .ok (if c.headWrap then runHead acts 0 false r0 else runGet acts r0)

inductive Outcome where
  | normal (r : Rec)
  | recovered (v : PanicVal) (r : Rec)
  | panicked (v : PanicVal)
  | unsupported
  deriving Repr

/-- `defer func() { if err := recover(); err != nil { recoverFunc(w, err) } }()`; `acts` is what the recovery function
does with `w` (default: the harness's `recoverFunc` records the value and writes status 500), `headWrap` whether `w` is
the `headResponse` wrapper by then. -/
def withRecover (recover : Bool) (respHeaders : Hdr) (x : Except PanicVal Rec)
    (acts : List Act := defaultRecActs) (headWrap : Bool := false) : Outcome :=
  match x with
  | .ok r => .normal r
  | .error v =>
    if recover then .recovered v (recRec acts headWrap respHeaders) else .panicked v

def ServeRes.finish (pc : PanicCfg) (scripts : Scripts) : ServeRes → Option Call × Outcome
  | .unsupported => (none, .unsupported)
  | .fault _ rc => (none, withRecover rc [] (.error .fault))
  | .call c => (some c, withRecover c.recover c.respHeaders (runCall pc scripts c) c.recActs c.headWrap)

/-- `Router.ServeHTTP`, complete. -/
def Router.serveHTTP (env : Env) (pc : PanicCfg) (scripts : Scripts) (r : Router) (req : Req) (ps : Params) :
    Option Call × Outcome :=
  (r.serveContext env req ps).finish pc scripts

/-- `Group.ServeHTTP`, complete: the deferred recover of the group only surrounds the call of the
group's own not-found handler; an accepted router uses its own. -/
def Group.serveHTTP (env : Env) (hostsTab : Nat → Option Hosts) (pc : PanicCfg) (scripts : Scripts)
    (rt : RTab) (g : Group) (req : Req) : Option Call × Outcome :=
  (g.serve env hostsTab rt req).finish pc scripts

end Mux
