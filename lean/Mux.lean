import Mux.Model.Call
import Mux.Spec.Judge
