import Driver.Codec
import Driver.CodecProofs
import Driver.Main
