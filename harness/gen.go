package main

// gen: deterministic generators of operation files, one "stream" per property family.
// Every random choice flows from one PCG state seeded by (seed, stream).

import (
	"bufio"
	"bytes"
	"fmt"
	"hash/fnv"
	"io"
	"math/rand/v2"
	"mime"
	"net/http/httputil"
	"os"
	"strconv"
	"strings"
)

type G struct {
	r   *rand.Rand
	w   *bufio.Writer
	n   int // ops emitted
	max int
}

func (g *G) emit(format string, a ...any) {
	fmt.Fprintf(g.w, format+"\n", a...)
	g.n++
}
func (g *G) full() bool               { return g.n >= g.max }
func (g *G) pick(l []string) string   { return l[g.r.IntN(len(l))] }
func (g *G) chance(p float64) bool    { return g.r.Float64() < p }
func (g *G) intn(n int) int           { return g.r.IntN(n) }

var (
	allMethods  = []string{"GET", "POST", "DELETE", "PUT", "PATCH", "CONNECT", "TRACE", "HEAD", "OPTIONS"}
	userMethods = []string{"GET", "POST", "DELETE", "PUT", "PATCH", "CONNECT", "GET", "POST", "DELETE", "TRACE"} // TRACE is registrable without WithTrace
	oddMethods  = []string{"", "get", "BOGUS", "HEAD", "OPTIONS", "TRACE", "G T", "\xff"}
)

// ---- pattern pools -------------------------------------------------------------------------

var literalPieces = []string{"/", "/a", "/b", "/ab", "/abc", "/users", "/posts", "/x", "-", ".", ".html", "/v1", "1", "2", "a", "aa", "b", "/a/", "/b/", "/users/", "/posts/", "/p/"}

var namedTokens = []string{"{id}", "{name}", "{n}", "{-id}", "{x}", "{action}", "{page}", "{na}", "{-n}"}
var rxTokens = []string{`{id:\d+}`, `{x:\d}`, `{x:\d+}`, `{w:\w+}`, `{p:.+}`, `{p:.*}`, `{s:[a-z]+}`, `{-r:\d+}`, `{c:a|ab}`, `{page:\d+}`, `{y:[0-9]+}`, `{z:\d*}`, `{q:(a|b)c}`, `{t:[^/]+}`, `{-g:(a|b)c}`, `{-k:(x|y)\d+}`, `{-o:(ab)?c}`, `{m:(a|b)\d}`}
var icTokens = []string{"{id:digit}", "{w:word}", "{a:any}", "{e:even}", "{s:starta}", "{-d:digit}", "{t:all}", "{f:none}"}
var suffixes = []string{"", "/", "/log", "/abc", "/author", ".html", "aa", "-", "/a", "/ab", ".", "+", "(", "/x"}

// the interceptor table offered to routers that use interceptors: rule -> id
var icptTable = []kv{{"digit", "1"}, {"word", "2"}, {"any", "0"}, {"even", "6"}, {"starta", "3"}, {"all", "4"}, {"none", "5"}, {`\d+`, "1"}}

// tokens with a brace inside the name: accepted by CheckSyntax, but longestPrefix cuts inside them
var nestedTokens = []string{"{a{b}", "{a{}}", "{abc{d}", "{abc{ee}", "{{a}", "{a{b}x", "{x{y:\\d+}"}

func (g *G) token(useIc bool) string {
	if g.chance(0.02) {
		return g.pick(nestedTokens)
	}
	switch k := g.intn(10); {
	case k < 4:
		return g.pick(namedTokens)
	case k < 7 || !useIc:
		return g.pick(rxTokens)
	default:
		return g.pick(icTokens)
	}
}

// pattern builds a well-formed pattern: literal (token suffix-literal)* [token]
func (g *G) pattern(useIc bool) string {
	var sb strings.Builder
	if g.chance(0.9) {
		sb.WriteString(g.pick([]string{"/", "/a", "/users", "/posts", "/p", "/x", "/ab", "/b"}))
		if g.chance(0.7) {
			sb.WriteString("/")
		}
	} else {
		sb.WriteString(g.pick([]string{"a", "x", "top", "a", "x", "top", "é"}))
	}
	nTok := g.intn(4)
	used := map[string]bool{}
	for i := 0; i < nTok; i++ {
		tok := g.token(useIc)
		name := tokName(tok)
		if used[name] {
			continue
		}
		used[name] = true
		sb.WriteString(tok)
		suf := g.pick(suffixes)
		if i < nTok-1 && suf == "" {
			suf = "/"
		}
		sb.WriteString(suf)
		if suf != "" && g.chance(0.3) {
			sb.WriteString(g.pick(literalPieces))
		}
	}
	if g.chance(0.03) {
		sb.WriteString(g.pick([]string{"é", "/日", "\xff"}))
	}
	if nTok == 0 && g.chance(0.7) {
		sb.WriteString(g.pick(literalPieces))
		if g.chance(0.4) {
			sb.WriteString(g.pick(literalPieces))
		}
	}
	return sb.String()
}

func tokName(tok string) string {
	s := strings.TrimPrefix(tok[1:len(tok)-1], "-")
	if i := strings.IndexByte(s, ':'); i >= 0 {
		s = s[:i]
	}
	return s
}

// mutatePattern derives a related pattern: shares a prefix, splits, renames, re-suffixes.
func (g *G) mutatePattern(p string, useIc bool) string {
	switch g.intn(9) {
	case 0: // extend
		return p + g.pick(literalPieces)
	case 1: // truncate at a random byte
		if len(p) > 1 {
			return p[:1+g.intn(len(p)-1)]
		}
	case 2: // append a token
		if !strings.HasSuffix(p, "}") {
			return p + g.token(useIc) + g.pick(suffixes)
		}
		return p + g.pick([]string{"/", "/x", "aa", "-"}) + g.token(useIc)
	case 3: // rename parameters (ambiguity, D22 prefixes)
		r := strings.NewReplacer("{id}", "{i}", "{name}", "{n}", "{n}", "{name}", "{x:", "{xx:", "{id:", "{i:", "{action}", "{act}", "{-id}", "{id}")
		return r.Replace(p)
	case 4: // change the last literal byte
		if len(p) > 1 && p[len(p)-1] != '}' {
			return p[:len(p)-1] + g.pick([]string{"a", "b", "c", "/", "1", "x", "z"})
		}
	case 5: // swap a rule for a near one
		r := strings.NewReplacer(`\d+}`, `\d}`, `\d}`, `\d+}`, `\w+}`, `[a-z]+}`, ":digit}", `:\d+}`)
		return r.Replace(p)
	case 6: // toggle '-'
		if strings.Contains(p, "{-") {
			return strings.Replace(p, "{-", "{", 1)
		}
		return strings.Replace(p, "{", "{-", 1)
	case 7: // sibling literal under the same parent
		if i := strings.LastIndexByte(p, '/'); i >= 0 {
			return p[:i+1] + g.pick([]string{"a", "b", "c", "d", "e", "f", "g", "zzz", "1", "ab", "ac"})
		}
	}
	return g.pattern(useIc)
}

var malformed = []string{"/{a{b}x", "/{a{}}y", "{abc{d}/x", "{abc{ee}/y", "", "{}", "/{}", "/{:\\d+}", "/{a}{b}", "/{id}/{id}", "/{id}/{-id}", "/{id:[0-9}", "/{id:(}", "/{id:*}", "/}{", "/{", "/}", "/{a", "/a}", "/{a:}", "/{a}:", "/{-}", "/{-:x}", "/{id-x:\\d+}", "/{a}}/{b}", "/{{a}", "/:{a}", "{a}{b}{c}", "/{a:\\d+}{b}", "{:}", "/posts/{:}", "/{:}.html", "/posts/{:}/author", "/{a}/{b}/{c}/{d}/{a}", "/{a}/{b}/{c}/{d}/{e}/{b}", "/{a}/{b}/{c}/{d}/{-d}", "/{a}/{b}/{c}/{d}/{e}/{f}/{g}/{h}/{i}/{a}"}

// ---- paths ---------------------------------------------------------------------------------

var simpleValues = []string{"5", "7", "42", "z", "zq", "Q9", "k", "ac", "x1", "bc", "0", "9", "A", "Z", "aZ09"}
var trickyValues = []string{"ac", "bc", "x1", "y22", "c", "abc", "a1", "", "a", "aa", "aaa", "abc", "a/b", "1/2", "x.html", "1a", "a1", "-", ".", "/", "ab", "b", "9", "12", "é", "\xff", "lo", "log", "0", "A", "Z", "z", "@", "[", "`", "{", ":", "a@", "Z[", "09:", "az{"}

// instantiate replaces every {…} token of a (well-formed) pattern by a value.
func (g *G) instantiate(p string, vals []string) string {
	var sb strings.Builder
	for i := 0; i < len(p); {
		if p[i] == '{' {
			j := strings.IndexByte(p[i:], '}')
			if j < 0 {
				sb.WriteString(p[i:])
				break
			}
			sb.WriteString(g.pick(vals))
			i += j + 1
			continue
		}
		sb.WriteByte(p[i])
		i++
	}
	return sb.String()
}

func (g *G) mutatePath(s string) string {
	switch g.intn(7) {
	case 0:
		if len(s) > 0 {
			return s[:g.intn(len(s))]
		}
	case 1:
		return s + g.pick([]string{"/", "a", "/log", "x", "aa", ".html"})
	case 2:
		if len(s) > 0 {
			i := g.intn(len(s))
			return s[:i] + g.pick([]string{"a", "/", "1", "\xff", "z"}) + s[i+1:]
		}
	case 3:
		if i := strings.LastIndexByte(s, '/'); i > 0 {
			return s + s[i:]
		}
	case 4:
		return s + s
	}
	return s
}

var weirdPaths = []string{"", "*", "/", "//", "/*", "\xff\xfe", "/\x00", "a", "{id}", "/{id}", "/%", " "}

func (g *G) pathFor(pool []string) string {
	if len(pool) == 0 || g.chance(0.05) {
		return g.pick(weirdPaths)
	}
	p := g.pick(pool)
	vals := simpleValues
	if g.chance(0.5) {
		vals = trickyValues
	}
	s := g.instantiate(p, vals)
	if g.chance(0.3) {
		s = g.mutatePath(s)
	}
	return s
}

// ---- shared building blocks ----------------------------------------------------------------

type routerOpt struct {
	name                                       string
	trace, lock, recover                       bool
	domain                                     string
	icpt                                       []kv
	cors                                       bool
	origins, allowH, exposed                   []string
	maxAge                                     int
	cred                                       bool
	recKind                                    string // with recover: "" = the harness's function, else s|w|l|g<status> (a bundled option)
}

func (g *G) routerLine(id int, o routerOpt) {
	if !o.lock && g.chance(0.15) { // the lock must be invisible to a single goroutine
		o.lock = true
	}
	rec := b2s(o.recover)
	if o.recover && o.recKind != "" {
		rec = o.recKind
	}
	g.emit("router %d %s %s %s %s %s %s %s %s %s %s %d %s", id, encB(o.name), b2s(o.trace), b2s(o.lock), rec,
		encB(o.domain), encKVs(o.icpt), b2s(o.cors), encL(o.origins), encL(o.allowH), encL(o.exposed), o.maxAge, b2s(o.cred))
}

func (g *G) serveLine(kind string, id int, method, path, host string, hdrs []kv) {
	accept := "%!"
	for _, h := range hdrs {
		if h.k == "Accept" {
			if _, ps, err := mime.ParseMediaType(h.v); err == nil {
				accept = encMap(ps)
			}
			break
		}
	}
	g.emit("%s %d %s %s %s %s %s", kind, id, encB(method), encB(path), encB(host), encKVs(hdrs), accept)
}

func (g *G) methodList(valid bool) []string {
	if g.chance(0.15) {
		return nil // Any
	}
	n := 1 + g.intn(3)
	var out []string
	for i := 0; i < n; i++ {
		if valid || g.chance(0.8) {
			out = append(out, g.pick(userMethods))
		} else {
			out = append(out, g.pick(oddMethods))
		}
	}
	if valid {
		seen := map[string]bool{}
		var d []string
		for _, m := range out {
			if !seen[m] {
				seen[m] = true
				d = append(d, m)
			}
		}
		out = d
	}
	return out
}

func (g *G) mwList() []int {
	if g.chance(0.6) {
		return nil
	}
	n := 1 + g.intn(3)
	out := make([]int, n)
	for i := range out {
		out[i] = 1 + g.intn(9)
	}
	return out
}

// history drives one router through a random history with probes after every step.
type histCfg struct {
	addOnly    bool
	useIc      bool
	trace      bool
	invalid    float64 // share of Handle calls with bad methods / malformed patterns
	mws        bool
	probes     int
	probeAll   bool // every method on every live pattern's witness
	urlProbes  bool
	facades    bool
	siblings   bool // seed >= 6 literal siblings under one parent
	lock       bool
	oddRequest float64
}

func (g *G) history(rid int, c histCfg, steps int) {
	o := routerOpt{name: "r" + strconv.Itoa(rid), trace: c.trace, lock: c.lock}
	if c.useIc {
		o.icpt = icptTable
	}
	g.routerLine(rid, o)
	var pool []string // every pattern ever used (live or not)
	nextH := 1
	addPat := func() string {
		if len(pool) > 0 && g.chance(0.2) {
			return g.pick(pool) // the same pattern again: more methods, duplicates, Any() on a live pattern
		}
		if len(pool) > 0 && g.chance(0.65) {
			return g.mutatePattern(g.pick(pool), c.useIc)
		}
		return g.pattern(c.useIc)
	}
	probe := func() {
		g.emit("routes %d", rid)
		if g.chance(0.3) {
			g.emit("dump %d", rid)
		}
		for i := 0; i < c.probes; i++ {
			m := g.pick(allMethods)
			if g.chance(c.oddRequest) {
				m = g.pick(oddMethods)
			}
			g.serveLine("serve", rid, m, g.pathFor(pool), "", nil)
		}
		if c.probeAll {
			for _, p := range pool {
				w := g.instantiate(p, simpleValues)
				if g.chance(0.15) {
					for _, m := range allMethods {
						g.serveLine("serve", rid, m, w, "", nil)
					}
				} else {
					g.serveLine("serve", rid, "GET", w, "", nil)
					g.serveLine("serve", rid, g.pick(allMethods), w, "", nil)
				}
			}
			g.serveLine("serve", rid, "OPTIONS", "*", "", nil)
		}
		if c.urlProbes && len(pool) > 0 {
			p := g.pick(pool)
			g.emit("url %d %s %s %s", rid, b2s(g.chance(0.5)), encB(p), g.paramsFor(p))
		}
	}
	if c.siblings {
		parent := g.pick([]string{"/s/", "/", "/users/", ""})
		n := 5 + g.intn(4)
		for i := 0; i < n; i++ {
			p := parent + string(rune('a'+i)) + g.pick([]string{"", "x", "/1"})
			pool = append(pool, p)
			g.emit("handle %d %s %d %s %s", rid, encB(p), nextH, "%-", encL([]string{"GET"}))
			nextH++
		}
		p := parent + g.token(c.useIc)
		pool = append(pool, p)
		g.emit("handle %d %s %d %s %s", rid, encB(p), nextH, "%-", encL([]string{"GET"}))
		nextH++
		// two routes that share a handler-less intermediate node next to the indexed siblings
		var stemRoutes []string
		if g.chance(0.7) {
			stem := parent + g.pick([]string{"a", "z", "m"}) + g.pick([]string{"b", "q"})
			for _, tail := range []string{"1", "2", "/" + g.token(c.useIc)}[:2+g.intn(2)] {
				q := stem + tail
				pool = append(pool, q)
				stemRoutes = append(stemRoutes, q)
				g.emit("handle %d %s %d %s %s", rid, encB(q), nextH, "%-", encL([]string{"GET"}))
				nextH++
			}
		}
		probe()
		if !c.addOnly && len(stemRoutes) > 0 && g.chance(0.5) {
			// remove the routes below the handler-less intermediate node one after the other: the last removal prunes two
			// levels at once under a parent that has a first-byte index
			for _, q := range stemRoutes {
				g.emit("remove %d %s %s", rid, encB(q), "%-")
				probe()
			}
		}
	}
	for s := 0; s < steps && !g.full(); s++ {
		k := g.intn(100)
		switch {
		case k < 55 || c.addOnly || len(pool) == 0:
			p := addPat()
			ms := g.methodList(!g.chance(c.invalid))
			if g.chance(c.invalid * 0.5) {
				p = g.pick(malformed)
			}
			var mw []int
			if c.mws {
				mw = g.mwList()
			}
			pool = append(pool, p)
			g.emit("handle %d %s %d %s %s", rid, encB(p), nextH, encNatList(mw), encL(ms))
			nextH++
		case k < 75:
			p := g.pick(pool)
			var ms []string
			if g.chance(0.6) {
				ms = g.methodList(false)
			}
			if g.chance(0.1) {
				p = g.mutatePattern(p, c.useIc)
			}
			g.emit("remove %d %s %s", rid, encB(p), encL(ms))
		case k < 83:
			pre := ""
			if g.chance(0.8) {
				p := g.pick(pool)
				if len(p) > 0 {
					pre = p[:1+g.intn(len(p))]
				}
				if cuts := tokenCuts(p); len(cuts) > 0 && g.chance(0.5) {
					pre = p[:cuts[g.intn(len(cuts))]] // just inside, at the end of, or one past a {token}
				}
			}
			g.emit("clean %d %s", rid, encB(pre))
		case k < 90 && c.mws:
			g.emit("use %d %s", rid, encNatList([]int{1 + g.intn(9)}))
		default:
			p := addPat()
			pool = append(pool, p)
			g.emit("handle %d %s %d %s %s", rid, encB(p), nextH, "%-", encL(g.methodList(true)))
			nextH++
		}
		probe()
	}
	// teardown: remove what is left one pattern at a time (cascading prunes), probing after every step
	if !c.addOnly && g.chance(0.5) {
		order := g.r.Perm(len(pool))
		for _, i := range order {
			if g.full() {
				break
			}
			g.emit("remove %d %s %s", rid, encB(pool[i]), "%-")
			probe()
		}
	}
}

func (g *G) paramsFor(p string) string {
	var out []kv
	for i := 0; i < len(p); {
		if p[i] == '{' {
			j := strings.IndexByte(p[i:], '}')
			if j < 0 {
				break
			}
			name := tokName(p[i : i+j+1])
			if !g.chance(0.1) {
				v := g.pick(simpleValues)
				if g.chance(0.4) {
					v = g.pick(trickyValues)
				}
				out = append(out, kv{name, v})
			}
			i += j + 1
			continue
		}
		i++
	}
	if g.chance(0.15) {
		out = append(out, kv{"extra", "1"})
	}
	seen := map[string]bool{}
	var d []kv
	for _, e := range out {
		if e.k != "" && !seen[e.k] {
			seen[e.k] = true
			d = append(d, e)
		}
	}
	return encKVs(d)
}

// ---- streams -------------------------------------------------------------------------------

func streamDispatch(g *G) { // C01
	rid := 1
	for !g.full() {
		g.history(rid, histCfg{useIc: g.chance(0.5), trace: g.chance(0.2), probes: 6, urlProbes: true, siblings: g.chance(0.3), oddRequest: 0.05}, 6+g.intn(20))
		rid++
		if g.chance(0.25) {
			// an IGNORED regexp parameter whose rule is a top-level alternation, followed by literal text: the alternation ends
			// where the parameter ends, whether or not the value is captured
			g.routerLine(rid, routerOpt{name: "alt"})
			for i, p := range []string{"/k/{-kind:cat|dog}/owner", "/k/{-c:a|ab}/log", "/j/{kind:cat|dog}/owner", "/k/{rest}"} {
				g.emit("handle %d %s %d %%- %s", rid, encB(p), i+1, encL([]string{"GET"}))
			}
			for _, path := range []string{"/k/cat", "/k/cat/owner", "/k/dog/owner", "/k/a", "/k/ab/log", "/k/a/log", "/j/cat", "/j/dog/owner", "/k/catx"} {
				g.serveLine("serve", rid, "GET", path, "", nil)
			}
			rid++
		}
		if g.chance(0.3) { // a refusing interceptor in front of literal text that occurs several times in the path
			fam := overlapFamilies[g.intn(len(overlapFamilies))]
			g.routerLine(rid, routerOpt{name: "ov", icpt: icptTable})
			for i, p := range fam.pats {
				g.emit("handle %d %s %d %%- %s", rid, encB(p), i+1, encL([]string{"GET"}))
			}
			for _, path := range fam.paths {
				g.serveLine("serve", rid, g.pick([]string{"GET", "GET", "OPTIONS", "POST"}), path, "", nil)
			}
			rid++
		}
	}
}

// overlapFamilies: an interceptor parameter (whose constraint can refuse a candidate) followed by literal text that can
// overlap itself; the paths put a refused occurrence of that text right before an overlapping one.
var overlapFamilies = []struct{ pats, paths []string }{
	{[]string{"/t/{tag:any}--edit", "/t/{tag:any}--view"}, []string{"/t/---edit", "/t/----view", "/t/x--view", "/t/--edit", "/t/-----edit", "/t/a--b--view"}},
	{[]string{"/tags/{tag:any}--{n:digit}"}, []string{"/tags/---5", "/tags/a--5", "/tags/--a--5", "/tags/----7", "/tags/a--b--5", "/tags/--5"}},
	{[]string{"/o/{a:any}aa", "/o/{a:any}aa/z"}, []string{"/o/aaa", "/o/aaaa", "/o/aa", "/o/aaa/z", "/o/baa", "/o/aaaaa/z"}},
	{[]string{"/w{w:word}abab/{n}", "/w{w:word}abab"}, []string{"/wababab/1", "/wabababab", "/wxabab/2", "/wabab/3", "/wab-abab/4", "/w-ababab"}},
	{[]string{"/d/{id:digit}11/x", "/d/{id:digit}11/y"}, []string{"/d/111/x", "/d/1111/y", "/d/11/x", "/d/a111/x", "/d/2111/y", "/d/1a11/x"}},
	// the suffix occurs three times and more, the FIRST TWO candidates are refused: second and later retries
	{[]string{"/p/{id:digit}/{tail}", "/p/{id:digit}/{tail}/z"}, []string{"/p/1234x/y/z/rest", "/p/20x///7", "/p/1x/2y/3/4", "/p/a/b/c/d", "/p/12/x", "/p/1x/y/z/w/z"}},
	{[]string{"/q/{w:word}-{n}"}, []string{"/q/a.b-c.d-e-f", "/q/a.-b.-c-d", "/q/.-.-.-x", "/q/ab-cd", "/q/a.-b-c"}},
}

func streamResolve(g *G) { // C02: add-only tables, several registration orders
	rid := 1
	for !g.full() {
		if g.chance(0.15) {
			// >= 5 literal children that all have children of their own (equal priority), then a route that splits one
			// of them which is not the last: every sibling behind it moves by one position under the first-byte index
			roots := []string{"/users/", "/posts/", "/tags/", "/admin/", "/files/", "/media/"}[:5+g.intn(2)]
			g.routerLine(rid, routerOpt{name: "r"})
			h := 1
			var all []string
			for _, r0 := range roots {
				for _, leaf := range []string{"list", "new"} {
					all = append(all, r0+leaf)
					g.emit("handle %d %s %d %s %s", rid, encB(r0+leaf), h, "%-", encL([]string{"GET"}))
					h++
				}
			}
			k := g.intn(len(roots) - 1)
			sp := roots[k][:2] + g.pick([]string{"ploads", "zz", "-x"})
			all = append(all, sp)
			g.emit("handle %d %s %d %s %s", rid, encB(sp), h, "%-", encL([]string{"GET"}))
			g.emit("routes %d", rid)
			g.emit("dump %d", rid)
			for _, p := range all {
				g.serveLine("serve", rid, "GET", p, "", nil)
				g.emit("spec-adm %d %s", rid, encB(p))
			}
			rid++
		}
		if g.chance(0.15) {
			// a parameter node with a literal tail ({id}/p100) is split INSIDE that tail by a later sibling ({id}/posts): the
			// lower half (100) turns from a parameter node into a literal node; parameter siblings registered under the
			// split point afterwards must still come after it (state kept per node must follow the change of kind)
			pre := g.pick([]string{"/users/", "/", "/a/b/"})
			tok := g.pick([]string{"{id}", "{id:\\d+}", "{id:digit}"})
			g.routerLine(rid, routerOpt{name: "r", icpt: icptTable})
			base := pre + tok + "/p"
			pats := []string{base + "100", base + "osts", base + "{page:\\d+}"}
			if g.chance(0.5) {
				pats = append(pats, base+"{w:word}x", base+"{rest}")
			}
			if g.chance(0.5) { // >= 5 children under the split point: the first-byte index relies on literals coming first
				pats = append(pats, base+"a", base+"b", base+"c")
			}
			for i, p := range pats {
				g.emit("handle %d %s %d %s %s", rid, encB(p), i+1, "%-", encL([]string{"GET"}))
			}
			g.emit("routes %d", rid)
			g.emit("dump %d", rid)
			for _, tail := range []string{"100", "25", "osts", "1000", "10", "a", "b", "c", "abx", "zz", ""} {
				path := pre + "7/p" + tail
				g.serveLine("serve", rid, "GET", path, "", nil)
				g.emit("spec-adm %d %s", rid, encB(path))
			}
			rid++
		}
		if g.chance(0.15) {
			// a strict URL() is a read: the answers to the same requests before and after it are the same (rules whose first
			// match and longest match differ: a prefix alternation)
			g.routerLine(rid, routerOpt{name: "r"})
			pats := []string{"/api/{v:v1|v10}", "/api/{rest}", "/t/{tag:a|ab}-{n:\\d+}", "/t/{all}"}
			for i, p := range pats {
				g.emit("handle %d %s %d %s %s", rid, encB(p), i+1, "%-", encL([]string{"GET"}))
			}
			paths := []string{"/api/v10", "/api/v1", "/api/v100", "/t/ab-5", "/t/a-5", "/t/abb-5"}
			for round := 0; round < 2; round++ {
				for _, path := range paths {
					g.serveLine("serve", rid, "GET", path, "", nil)
					g.emit("spec-adm %d %s", rid, encB(path))
				}
				g.emit("url %d 1 %s %s", rid, encB(pats[0]), encKVs([]kv{{"v", "v10"}}))
				g.emit("url %d 1 %s %s", rid, encB(pats[2]), encKVs([]kv{{"tag", "ab"}, {"n", "5"}}))
			}
			rid++
		}
		useIc := g.chance(0.5)
		n := 2 + g.intn(10)
		var pats []string
		for i := 0; i < n; i++ {
			if len(pats) > 0 && g.chance(0.7) {
				pats = append(pats, g.mutatePattern(g.pick(pats), useIc))
			} else {
				pats = append(pats, g.pattern(useIc))
			}
		}
		if g.chance(0.3) {
			parent := g.pick([]string{"/s/", "/", "/users/"})
			for i := 0; i < 6; i++ {
				pats = append(pats, parent+string(rune('a'+i)))
			}
		}
		var paths []string
		for i := 0; i < 12; i++ {
			paths = append(paths, g.pathFor(pats))
		}
		if useIc && g.chance(0.35) { // a refusing constraint in front of literal text that overlaps itself
			fam := overlapFamilies[g.intn(len(overlapFamilies))]
			pats = append(pats, fam.pats...)
			for i := 0; i < 6; i++ {
				paths = append(paths, g.pick(fam.paths))
			}
		}
		for ord := 0; ord < 3; ord++ {
			o := routerOpt{name: "r"}
			if useIc {
				o.icpt = icptTable
			}
			g.routerLine(rid, o)
			perm := g.r.Perm(len(pats))
			for i, pi := range perm {
				g.emit("handle %d %s %d %s %s", rid, encB(pats[pi]), pi+1, "%-", encL([]string{"GET"}))
				_ = i
			}
			g.emit("routes %d", rid)
			for _, p := range paths {
				g.serveLine("serve", rid, "GET", p, "", nil)
				// answered by the model side only: the admissible outcomes according to the Lean reference resolver of
				// the theorem C02_resolve; the C02 judge checks the implementation's answer above against it
				g.emit("spec-adm %d %s", rid, encB(p))
			}
			rid++
		}
	}
}

// manualTraceFamily: on a router WITHOUT WithTrace TRACE is an ordinary method; a route that (also) carries a
// hand-registered TRACE loses other methods one by one, methods it never had, and finally TRACE itself.
func (g *G) manualTraceFamily(rid int) {
	g.routerLine(rid, routerOpt{name: "mt" + strconv.Itoa(rid)})
	p := g.pick([]string{"/t", "/t/{id}", "/r/t"})
	w := g.instantiate(p, simpleValues)
	probe := func() {
		g.emit("routes %d", rid)
		for _, m := range []string{"TRACE", "GET", "POST", "OPTIONS", "DELETE"} {
			g.serveLine("serve", rid, m, w, "", nil)
		}
		g.serveLine("serve", rid, "OPTIONS", "*", "", nil)
	}
	if g.chance(0.5) {
		g.emit("handle %d %s 1 %%- %s", rid, encB(p+"/below"), encL([]string{"GET"}))
	}
	g.emit("handle %d %s 2 %%- %s", rid, encB(p), encL([]string{"TRACE"}))
	if g.chance(0.6) {
		g.emit("handle %d %s 3 %%- %s", rid, encB(p), encL([]string{"GET", "POST"}))
	}
	probe()
	steps := [][]string{{"GET"}, {"POST"}, {"DELETE"}, {"GET", "POST"}, {"PUT", "PATCH"}, {"CONNECT"}, {"OPTIONS"}, {"HEAD"}}
	for _, i := range g.r.Perm(len(steps))[:4] {
		g.emit("remove %d %s %s", rid, encB(p), encL(steps[i]))
		probe()
	}
	g.emit("remove %d %s %s", rid, encB(p), encL([]string{"TRACE"}))
	probe()
}

func streamLifecycle(g *G) { // C03
	rid := 1
	for !g.full() {
		g.history(rid, histCfg{useIc: g.chance(0.3), trace: g.chance(0.3), probes: 2, probeAll: true, siblings: g.chance(0.6), facades: true}, 8+g.intn(25))
		rid++
		if g.chance(0.3) {
			g.manualTraceFamily(rid)
			rid++
		}
		if g.chance(0.2) {
			// a literal that starts with an unclosed brace ("/{draft" is plain text) next to parameter siblings under a node with
			// a first-byte index: Remove/URL look the parameter routes up by their text, the index byte '{' belongs to the literal
			g.routerLine(rid, routerOpt{name: "brace"})
			for i, p := range []string{"/alpha", "/beta", "/gamma", "/delta", "/{draft", "/{id}", "/{id}/x"}[:5+g.intn(3)] {
				g.emit("handle %d %s %d %%- %s", rid, encB(p), i+1, encL([]string{"GET", "POST"}))
			}
			g.emit("routes %d", rid)
			g.emit("remove %d %s %s", rid, encB("/{id}"), encL([]string{"POST"}))
			g.emit("routes %d", rid)
			for _, q := range [][2]string{{"POST", "/57"}, {"GET", "/57"}, {"GET", "/{draft"}, {"GET", "/alpha"}} {
				g.serveLine("serve", rid, q[0], q[1], "", nil)
			}
			g.emit("remove %d %s %%-", rid, encB("/{id}"))
			g.emit("routes %d", rid)
			g.serveLine("serve", rid, "GET", "/57", "", nil)
			g.emit("url %d 1 %s %s", rid, encB("/{id}/x"), encKVs([]kv{{"id", "5"}}))
			rid++
		}
		if g.chance(0.35) {
			// an interior pattern (a longer route lives below it) loses its last method BY NAME — the node stays, with an empty
			// table — and is registered again: it is a live route again, with its automatic OPTIONS/405 entries
			g.routerLine(rid, routerOpt{name: "int", trace: g.chance(0.3)})
			pa := g.pick([]string{"/posts", "/v/{id}", "/s/x"})
			m0 := g.pick([]string{"GET", "POST", "DELETE"})
			g.emit("handle %d %s 1 %%- %s", rid, encB(pa), encL([]string{m0}))
			g.emit("handle %d %s 2 %%- %s", rid, encB(pa+"/{sub}"), encL([]string{"GET"}))
			g.emit("remove %d %s %s", rid, encB(pa), encL([]string{m0, "PATCH"}))
			probe := func() {
				g.emit("routes %d", rid)
				for _, m := range []string{"GET", "HEAD", "OPTIONS", "POST", "DELETE"} {
					g.serveLine("serve", rid, m, g.instantiate(pa, []string{"5"}), "", nil)
				}
				g.serveLine("serve", rid, "GET", g.instantiate(pa+"/{sub}", []string{"5", "7"}), "", nil)
			}
			probe()
			g.emit("handle %d %s 3 %%- %s", rid, encB(pa), encL([]string{g.pick([]string{"GET", "PUT"})}))
			probe()
			// ... removed as a WHOLE (the node stays: it has a child), registered with another method, that method removed by name
			g.emit("remove %d %s %%-", rid, encB(pa))
			probe()
			g.emit("handle %d %s 4 %%- %s", rid, encB(pa), encL([]string{"POST"}))
			g.emit("remove %d %s %s", rid, encB(pa), encL([]string{"POST"}))
			probe()
			rid++
		}
	}
}

func streamAllow(g *G) { // C04
	rid := 1
	for !g.full() {
		// decoy routers first: a fresh router must not depend on them
		for d := 0; d < g.intn(3); d++ {
			g.history(rid, histCfg{trace: g.chance(0.5), probes: 1}, 2+g.intn(4))
			rid++
		}
		g.routerLine(rid, routerOpt{name: "fresh", trace: g.chance(0.5)})
		g.serveLine("serve", rid, "OPTIONS", "*", "", nil)
		g.emit("routes %d", rid)
		rid++
		if g.chance(0.4) {
			// method sets reached in different ORDERS, on one router and on two: a set grown by one method from a smaller set
			// (router-wide set after each registration), shrunk by a Remove, grown again by another method; afterwards a node
			// gets one of these sets directly. What Routes()/Methods() list and what Allow says come from one table entry.
			ms := []string{"PATCH", "POST", "PUT", "DELETE", "CONNECT"}
			g.r.Shuffle(len(ms), func(i, j int) { ms[i], ms[j] = ms[j], ms[i] })
			a, b := rid, rid+1
			rid += 2
			g.routerLine(a, routerOpt{name: "ord"})
			g.routerLine(b, routerOpt{name: "ord2"})
			g.emit("handle %d /a 1 %%- %s", a, encL([]string{ms[0]}))
			g.emit("handle %d /b 2 %%- %s", a, encL([]string{ms[1]}))
			g.emit("remove %d /b %%-", a)
			g.emit("handle %d /c 3 %%- %s", a, encL([]string{ms[2]}))
			g.emit("handle %d /a 1 %%- %s", b, encL([]string{ms[0]}))
			g.emit("handle %d /b 2 %%- %s", b, encL([]string{ms[2]}))
			g.emit("handle %d /d 4 %%- %s", a, encL([]string{ms[0], ms[1]}))
			g.emit("handle %d /d 4 %%- %s", b, encL([]string{ms[0], ms[1]}))
			for _, r := range []int{a, b} {
				g.emit("routes %d", r)
				g.serveLine("serve", r, "OPTIONS", "/d", "", nil)
				g.serveLine("serve", r, "LINK", "/d", "", nil)
				g.serveLine("serve", r, "OPTIONS", "*", "", nil)
			}
		}
		if g.chance(0.4) {
			// method sets are shared between nodes and routers through a process-wide table: a router with CORS answers
			// preflights from that table (sets with TRACE through WithTrace, with CONNECT through the whole AnyMethods list);
			// afterwards the sets of the same and of an unrelated router must still read the same
			tr := g.chance(0.6)
			ms := [][]string{{"GET"}, {"GET", "POST"}, {"GET", "DELETE", "PATCH", "POST", "PUT", "CONNECT"}, {"CONNECT"}}[g.intn(4)]
			a, b := rid, rid+1
			rid += 2
			g.routerLine(a, routerOpt{name: "corsa", trace: tr, cors: true, origins: []string{"*"}, allowH: []string{"*"}, maxAge: 5})
			g.routerLine(b, routerOpt{name: "plainb", trace: tr})
			for _, r := range []int{a, b} {
				g.emit("handle %d /users %d %%- %s", r, r, encL(ms))
				g.emit("routes %d", r)
			}
			for _, acrm := range []string{ms[0], "PUT", "TRACE"} {
				g.serveLine("serve", a, "OPTIONS", "/users", "", []kv{{"Origin", "https://a.example"}, {"Access-Control-Request-Method", acrm}})
			}
			for _, r := range []int{a, b} {
				g.emit("routes %d", r)
				g.serveLine("serve", r, "OPTIONS", "/users", "", nil)
				g.serveLine("serve", r, "LINK", "/users", "", nil)
				g.serveLine("serve", r, "OPTIONS", "*", "", nil)
			}
		}
		g.history(rid, histCfg{trace: g.chance(0.5), probes: 1, probeAll: true, siblings: g.chance(0.2)}, 8+g.intn(20))
		rid++
	}
}

func streamCrash(g *G) { // C05
	g.emit("methods")
	g.routerLine(900001, routerOpt{name: ""}) // NewRouter("") panics with a message, not a runtime fault
	g.routerLine(900003, routerOpt{name: "dupic", icpt: []kv{{"digit", "1"}, {"word", "2"}, {"digit", "2"}}}) // the same rule twice: the constructor panics
	g.emit("handle 900003 /a 1 %%- %s", encL([]string{"GET"}))
	g.routerLine(900002, routerOpt{name: "long"})
	for _, n := range []int{32766, 32767, 32768, 40000} { // one piece longer than MaxInt16 is a syntax error, not a fault
		g.emit("syntax %s", encB("/"+strings.Repeat("a", n-1)))
		g.emit("handle 900002 %s %d %%- %s", encB("/l/{id}/"+strings.Repeat("b", n-1)), n, encL([]string{"GET"}))
	}
	g.serveLine("serve", 900002, "GET", "/l/5/"+strings.Repeat("b", 32766), "", nil)
	// the length limit of one piece, for purely static patterns and for pieces behind a parameter: CheckSyntax and Handle on a
	// fresh router agree on both sides of the limit
	for k, pat := range []string{"/" + strings.Repeat("s", 32766), "/" + strings.Repeat("s", 32767)} {
		g.emit("syntax %s", encB(pat))
		g.routerLine(900010+k, routerOpt{name: "lim"})
		g.emit("handle %d %s 1 %%- %s", 900010+k, encB(pat), encL([]string{"GET"}))
	}
	rid := 1
	for !g.full() {
		g.history(rid, histCfg{useIc: g.chance(0.5), trace: g.chance(0.3), probes: 4, siblings: g.chance(0.5), invalid: 0.3, oddRequest: 0.5}, 6+g.intn(12))
		for i := 0; i < 8; i++ {
			p := g.pick(malformed)
			if g.chance(0.5) {
				p = randBytes(g, 1+g.intn(12))
			}
			g.emit("syntax %s", encB(p))
			// the same string registered on a brand-new router without interceptors: Handle agrees with CheckSyntax
			g.routerLine(800000+g.n, routerOpt{name: "syn"})
			g.emit("handle %d %s 1 %%- %s", 800000+g.n-1, encB(p), encL([]string{"GET"}))
			g.emit("murl %s %s", encB(p), g.paramsFor(p+"{a}{b:x}"))
			g.emit("url %d %s %s %s", rid, b2s(g.chance(0.5)), encB(p), g.paramsFor(p+"{a}"))
			// whatever was accepted is also served (an odd pattern that registers must not fault at request time)
			for k := 0; k < 2; k++ {
				g.serveLine("serve", 800000+g.n-1, "GET", "/"+randFrom(g, "ab1/x.", g.intn(4)), "", nil)
			}
		}
		g.parenFamily(850000 + g.n)
		g.serveLine("serve", rid, "GET", strings.Repeat("/a", 3000), "", nil)
		g.serveLine("serve", rid, g.pick(oddMethods), "*", "", nil)
		g.serveLine("serve", rid, g.pick(oddMethods), "", "", nil)
		rid++
	}
}

func randFrom(g *G, alpha string, n int) string {
	b := make([]byte, n)
	for i := range b {
		b[i] = alpha[g.intn(len(alpha))]
	}
	return string(b)
}

// parenFamily: regexp rules whose parentheses do not balance on their own. Go compiles the text "(?P<name>" + rule + ")" + suffix,
// so a stray ")" closes the named group early: `a)|(b` used to compile, its named group did not take part in a match of "b"
// and Segment.Match sliced with -1 (D35). Registered (capturing and ignoring form, with and without suffix) and served.
var parenRules = []string{"a)|(b", "a)(b", ")(", "a)|(", "a)|(b)|(c", "(a)|(b)", "a|b", "(a", "a)", "a\\", "[a\\", "a)*(b", "(?:a)|(b"}

func (g *G) parenFamily(rid int) {
	g.routerLine(rid, routerOpt{name: "paren" + strconv.Itoa(rid)})
	rule := g.pick(parenRules)
	pre := g.pick([]string{"/", "/x", "/p/"})
	pat := pre + "{" + g.pick([]string{"n", "-n"}) + ":" + rule + "}" + g.pick([]string{"", "", ".x", "/y"})
	g.emit("syntax %s", encB(pat))
	g.emit("handle %d %s 1 %%- %s", rid, encB(pat), encL([]string{"GET"}))
	g.emit("routes %d", rid)
	for _, v := range []string{"a", "b", "ab", "c", "", "ba", "(", ")"} {
		for _, sfx := range []string{"", ".x", "/y"} {
			if g.chance(0.5) {
				g.serveLine("serve", rid, "GET", pre+v+sfx, "", nil)
			}
		}
	}
}

func randBytes(g *G, n int) string {
	alpha := "{}:-/ab1\\d+.*()[]|\x00\xff"
	b := make([]byte, n)
	for i := range b {
		b[i] = alpha[g.intn(len(alpha))]
	}
	return string(b)
}

// ambiguityFamily registers routes that differ in parameter names only at one position but diverge later, then
// keeps registering further methods on each of them and true name-only variants (which must be rejected).
func (g *G) ambiguityFamily(rid int) {
	g.routerLine(rid, routerOpt{name: "amb" + strconv.Itoa(rid), icpt: icptTable})
	n1, n2 := g.pick([]string{"id", "a", "uid"}), g.pick([]string{"uid2", "b", "x"})
	mid := g.pick([]string{"/a/", "/", "-", "/log/"})
	tok2 := g.pick([]string{"{k}", "{k:\\d+}", "{k:digit}"})
	rule := g.pick([]string{"", ":\\d+", ":word"})
	p1 := "/p/{" + n1 + rule + "}" + mid + tok2 + "/x"
	p2 := "/p/{" + n2 + rule + "}" + mid + tok2 + "/y"
	p3 := "/p/{" + n2 + rule + "}" + mid + tok2 + "/x"   // name-only variant of p1
	p4 := "/p/{-" + n1 + rule + "}" + mid + tok2 + "/y"  // '-' variant of p2
	h := 1
	probe := func() {
		g.emit("routes %d", rid)
		for _, p := range []string{p1, p2} {
			for _, m := range []string{"GET", "POST", "PUT", "OPTIONS"} {
				g.serveLine("serve", rid, m, g.instantiate(p, []string{"5", "7"}), "", nil)
			}
		}
	}
	for _, st := range []struct{ p, m string }{{p1, "GET"}, {p2, "GET"}, {p2, "POST"}, {p1, "POST"}, {p3, "PUT"}, {p4, "PUT"}, {p2, "PUT"}, {p1, "DELETE"}, {p2, "GET"}} {
		g.emit("handle %d %s %d %%- %s", rid, encB(st.p), h, encL([]string{st.m}))
		h++
		probe()
	}
}

// twinFamily: tokens with a brace inside (outside the well-formedness hypothesis of the theorems, inside C17's quantifier):
// the tree can end up with two nodes carrying one pattern text; method lists whose LAST entries collide with one of them.
func (g *G) twinFamily(rid int) {
	g.routerLine(rid, routerOpt{name: "twin" + strconv.Itoa(rid)})
	tok := g.pick([]string{"{abc{d}", "{a{b}", "{x{}}", "{n{:\\d+}", "{a}{b{c}"})
	base := g.pick([]string{"/s/", "/", "/u-"}) + tok
	tail := g.pick([]string{"/ab", "x", "/"})
	pats := []string{base, base + tail, base + tail + "/z"}
	sets := [][]string{{"GET", "CONNECT", "PUT"}, {"PATCH", "POST"}, {"DELETE"}}
	h := 1
	probe := func() {
		g.emit("routes %d", rid)
		for _, p := range pats {
			w := g.instantiate(p, []string{".", "5"})
			for _, m := range allMethods {
				g.serveLine("serve", rid, m, w, "", nil)
			}
		}
	}
	g.emit("handle %d %s %d %%- %s", rid, encB(pats[0]), h, encL([]string{"GET"}))
	h++
	for i := 0; i < 2+g.intn(3); i++ {
		g.emit("handle %d %s %d %%- %s", rid, encB(g.pick(pats[1:])), h, encL(sets[g.intn(len(sets))]))
		h++
	}
	probe()
	for i := 0; i < 4; i++ { // fresh methods first, a colliding one last
		ms := append(g.methodList(true), g.pick([]string{"POST", "PUT", "GET", "DELETE", "PATCH"}))
		g.emit("handle %d %s %d %%- %s", rid, encB(g.pick(pats)), h, encL(ms))
		h++
		probe()
	}
}

// lateRejectFamily: a Handle that is rejected for its method list (TRACE on a WithTrace router, a reserved or unknown
// method in last position) on a NEW pattern that would split an existing parameter node; probes whose parameter value
// contains the following literal text see a split at once.
func (g *G) lateRejectFamily(rid int) {
	g.routerLine(rid, routerOpt{name: "late" + strconv.Itoa(rid), trace: g.chance(0.7)})
	tok := g.pick([]string{"{b}", "{b:\\w+}", "{b:\\d+}"})
	tok2 := g.pick([]string{"{a:\\w+}", "{c:[0-9a-z]+}"})
	pre := g.pick([]string{"/", "/p/", ""})
	g.emit("handle %d %s 1 %s %s", rid, encB(pre+tok2+"/x"), "%-", encL([]string{"GET"}))
	g.emit("handle %d %s 2 %s %s", rid, encB(pre+tok+"/x"), "%-", encL([]string{"GET"}))
	probe := func() {
		g.emit("routes %d", rid)
		for _, p := range []string{pre + "a/b/x", pre + "5/x", pre + "a/x", pre + "5/y", pre + "a/b/y", pre + "55/x/x"} {
			for _, m := range []string{"GET", "POST", "OPTIONS", "TRACE"} {
				g.serveLine("serve", rid, m, p, "", nil)
			}
		}
	}
	probe()
	h := 3
	for _, ms := range [][]string{{"GET", "TRACE"}, {"TRACE"}, {"POST", "HEAD"}, {"PUT", "OPTIONS"}, {"DELETE", "BOGUS"}, {"GET", "GET"}, {"PATCH", "TRACE", "GET"}} {
		g.emit("handle %d %s %d %s %s", rid, encB(pre+tok+g.pick([]string{"/y", "/xy", "/", "-z"})), h, "%-", encL(ms))
		h++
		probe()
	}
}

// onlyRouteFamily: ONE live route, then every name-only / '-' variant of it: each must be rejected as ambiguous and
// nothing may change.
func (g *G) onlyRouteFamily(rid int) {
	g.routerLine(rid, routerOpt{name: "only" + strconv.Itoa(rid), icpt: icptTable})
	rule := g.pick([]string{"", ":\\d+", ":digit", ":[a-z]+"})
	tail := g.pick([]string{"", "/x", ".html", "/{k}"})
	mk := func(name string) string { return "/o/{" + name + rule + "}" + tail }
	p := mk("id")
	g.emit("handle %d %s 1 %s %s", rid, encB(p), "%-", encL([]string{"GET"}))
	probe := func() {
		g.emit("routes %d", rid)
		for _, m := range []string{"GET", "POST", "OPTIONS"} {
			g.serveLine("serve", rid, m, g.instantiate(p, []string{"5", "ab"}), "", nil)
		}
	}
	probe()
	for i, v := range []string{mk("uid"), mk("-id"), mk("-x"), mk("i"), strings.Replace(mk("id"), "{k}", "{kk}", 1)} {
		if v == p {
			continue
		}
		// table operations that leave p the only route (a Clean of a prefix nothing lives under, a static route that comes
		// and goes, a Remove of an absent pattern, a strict URL): state kept beside the tree must survive them
		switch g.intn(9) {
		case 0:
			g.emit("clean %d %s", rid, encB(g.pick([]string{"/admin", "/o/x", "/o/{idx", "/z"})))
		case 1:
			g.emit("handle %d /zz 90 %%- %s", rid, encL([]string{"GET"}))
			g.emit("clean %d /zz", rid)
		case 2:
			g.emit("handle %d /zz/{q} 91 %%- %s", rid, encL([]string{"GET"}))
			g.emit("remove %d /zz/{q} %%-", rid)
		case 3:
			g.emit("remove %d /nothing %%-", rid)
		case 4:
			g.emit("url %d 1 %s %s", rid, encB(p), g.paramsFor(p))
		case 5, 6:
			// a sibling that splits the parameter node of p comes and goes: the tree keeps the split, p is the only route again
			alt := map[string]string{"": "/z", "/x": "/y", ".html": ".htm", "/{k}": "/{k}/m"}[tail]
			if g.chance(0.3) {
				alt = map[string]string{"": "-z", "/x": "/xy", ".html": ".json", "/{k}": "/q"}[tail]
			}
			g.emit("handle %d %s 92 %%- %s", rid, encB("/o/{id"+rule+"}"+alt), encL([]string{"GET"}))
			g.emit("remove %d %s %%-", rid, encB("/o/{id"+rule+"}"+alt))
		}
		g.emit("handle %d %s %d %s %s", rid, encB(v), 2+i, "%-", encL([]string{g.pick([]string{"GET", "POST", "PUT"})}))
		probe()
	}
}

// splitRemoveFamily: ONE live route whose parameter node was split by a sibling that has been removed again (the tree
// keeps the split: `{id}/` + `x`); every name-only / '-' variant of the route is still "identical up to parameter names to
// the only other route" and must be rejected; patterns that differ in their literal text must not be.
func (g *G) splitRemoveFamily(rid int) {
	g.routerLine(rid, routerOpt{name: "spl" + strconv.Itoa(rid), icpt: icptTable})
	rule := g.pick([]string{"", ":\\d+", ":digit", ":[a-z]+"})
	tails := [][2]string{{"/x", "/y"}, {".html", ".htm"}, {"/x/{k}", "/x-{k}"}, {"-a", "-b"}, {"/author", "/avatar"}, {"/ab", "/a"}}
	tl := tails[g.intn(len(tails))]
	pre := g.pick([]string{"/o/", "/", ""})
	mk := func(name, tail string) string { return pre + "{" + name + rule + "}" + tail }
	p, sib := mk("id", tl[0]), mk("id", tl[1])
	g.emit("handle %d %s 1 %s %s", rid, encB(p), "%-", encL([]string{"GET"}))
	probe := func() {
		g.emit("routes %d", rid)
		for _, m := range []string{"GET", "POST", "OPTIONS"} {
			g.serveLine("serve", rid, m, g.instantiate(p, []string{"5", "ab"}), "", nil)
			g.serveLine("serve", rid, m, g.instantiate(sib, []string{"5", "ab"}), "", nil)
		}
	}
	g.emit("handle %d %s 2 %s %s", rid, encB(sib), "%-", encL([]string{"GET"}))
	if g.chance(0.3) { // the variant while BOTH routes are live (it may or may not be rejected: p is not the only other route)
		g.emit("handle %d %s 3 %s %s", rid, encB(mk("uid", tl[0])), "%-", encL([]string{"PUT"}))
		g.emit("remove %d %s %s", rid, encB(mk("uid", tl[0])), "%-")
	}
	probe()
	if g.chance(0.5) {
		g.emit("remove %d %s %s", rid, encB(sib), "%-")
	} else {
		g.emit("remove %d %s %s", rid, encB(sib), encL([]string{"GET"}))
	}
	probe()
	for i, v := range []string{mk("uid", tl[0]), mk("-id", tl[0]), mk("x", tl[0]), mk("uid", tl[1]), mk("uid", tl[0]+"z"), mk("uid", "")} {
		g.emit("handle %d %s %d %s %s", rid, encB(v), 4+i, "%-", encL([]string{g.pick([]string{"GET", "POST", "PUT"})}))
		probe()
		if i >= 3 { // the patterns that differ in literal text are accepted: take them out again
			g.emit("remove %d %s %s", rid, encB(v), "%-")
		}
	}
}

// cleanedStubFamily: two routes under one parameter are cleaned away with prefixes that end inside a node, which leaves
// a handler-less stub ({uid}/a) in the tree; then ONE route is registered with another parameter name, and every
// name-only variant of that only route must still be rejected.
func (g *G) cleanedStubFamily(rid int) {
	g.routerLine(rid, routerOpt{name: "stub" + strconv.Itoa(rid)})
	pre := g.pick([]string{"/p/", "/", "/x/y/"})
	g.emit("handle %d %s 1 %%- %s", rid, encB(pre+"{uid}/about"), encL([]string{"GET"}))
	g.emit("handle %d %s 2 %%- %s", rid, encB(pre+"{uid}/album"), encL([]string{"GET"}))
	g.emit("clean %d %s", rid, encB(pre+"{uid}/ab"))
	g.emit("clean %d %s", rid, encB(pre+"{uid}/al"))
	g.emit("routes %d", rid)
	only := pre + "{id}/about"
	g.emit("handle %d %s 3 %%- %s", rid, encB(only), encL([]string{"GET"}))
	probe := func() {
		g.emit("routes %d", rid)
		for _, m := range []string{"GET", "POST", "OPTIONS"} {
			g.serveLine("serve", rid, m, pre+"5/about", "", nil)
		}
	}
	probe()
	for i, v := range []string{pre + "{uid}/about", pre + "{-id}/about", pre + "{x}/about"} {
		g.emit("handle %d %s %d %%- %s", rid, encB(v), 4+i, encL([]string{g.pick([]string{"GET", "POST"})}))
		probe()
	}
	// three live routes: the variant of the LAST sibling is still a variant of a live route (rejecting it is allowed, and
	// whatever the answer, nothing may change when it is rejected)
	g.emit("handle %d %s 8 %%- %s", rid, encB(pre+"{id}/author"), encL([]string{"GET"}))
	g.emit("handle %d %s 9 %%- %s", rid, encB(pre+"{id}/avatar"), encL([]string{"GET"}))
	probe()
}

// reviveFamily: a route P is removed while its node stays in the tree (it has a child, or a Prefix.Clean below it left an
// empty leaf), a name-only variant Q of P is registered (legitimate: P is not live), then P is registered again: P is now
// identical to the live Q up to parameter names and must be rejected (variant A: Q is the ONLY route), nothing may change.
// A lookup of the existing node by its text must not stand in for the ambiguity check.
func (g *G) reviveFamily(rid int) {
	g.routerLine(rid, routerOpt{name: "rev" + strconv.Itoa(rid), icpt: icptTable})
	rule := g.pick([]string{"", ":\\d+", ":digit", ":[a-z]+"})
	pre := g.pick([]string{"/u/", "/posts/", "/"})
	mid := g.pick([]string{"/profile", "/comments", "", ".html", "/a"})
	below := g.pick([]string{"/edit", "/{cid}", "/x/y", "/{k:\\d+}/z"})
	mk := func(name string) string { return pre + "{" + name + rule + "}" + mid }
	p, q := mk("id"), mk(g.pick([]string{"uid", "pid", "-id", "i"}))
	h := 1
	handle := func(pat string, ms ...string) {
		g.emit("handle %d %s %d %%- %s", rid, encB(pat), h, encL(ms))
		h++
	}
	probe := func() {
		g.emit("routes %d", rid)
		for _, pat := range []string{p, p + below} {
			for _, m := range []string{"GET", "POST", "OPTIONS"} {
				g.serveLine("serve", rid, m, g.instantiate(pat, []string{"5", "7", "9"}), "", nil)
			}
		}
	}
	handle(p, "GET")
	handle(p+below, "GET")
	probe()
	g.emit("remove %d %s %%-", rid, encB(p))
	onlyRoute := g.chance(0.5)
	if onlyRoute { // the child goes too: an empty node (or nothing) is left, Q becomes the only route
		if g.chance(0.5) {
			g.emit("clean %d %s", rid, encB(p+"/"))
			g.emit("clean %d %s", rid, encB(p+below[:1]))
		} else {
			g.emit("remove %d %s %%-", rid, encB(p+below))
		}
	}
	probe()
	handle(q, "GET")
	probe()
	handle(p, g.pick([]string{"GET", "POST"}), "PUT") // identical to the live q up to the parameter name
	probe()
	handle(p, "DELETE")
	probe()
	if !onlyRoute {
		handle(p+below, "POST") // a further method on the live child is fine
		probe()
	}
}

// upperHalfFamily: two routes share a parameter and the start of its suffix (the node is split: `{id}/`), then the UPPER
// HALF itself becomes a route; the longer routes are removed, so it is the only route; every name-only / '-' variant of it is
// rejected, and nothing changes.
func (g *G) upperHalfFamily(rid int) {
	g.routerLine(rid, routerOpt{name: "up" + strconv.Itoa(rid), icpt: icptTable})
	rule := g.pick([]string{"", ":\\d+", ":digit"})
	pre := g.pick([]string{"/a/", "/"})
	mk := func(name, tail string) string { return pre + "{" + name + rule + "}" + tail }
	up := mk("id", "/")
	h := 1
	for _, t := range []string{"/x", "/y"} {
		g.emit("handle %d %s %d %%- %s", rid, encB(mk("id", t)), h, encL([]string{"GET"}))
		h++
	}
	g.emit("handle %d %s %d %%- %s", rid, encB(up), h, encL([]string{"GET"}))
	h++
	probe := func() {
		g.emit("routes %d", rid)
		for _, m := range []string{"GET", "POST", "OPTIONS"} {
			g.serveLine("serve", rid, m, g.instantiate(up, []string{"5"}), "", nil)
		}
	}
	if g.chance(0.7) {
		g.emit("remove %d %s %%-", rid, encB(mk("id", "/x")))
		g.emit("remove %d %s %%-", rid, encB(mk("id", "/y")))
	}
	probe()
	for _, v := range []string{mk("uid", "/"), mk("-id", "/"), mk("i", "/")} {
		g.emit("handle %d %s %d %%- %s", rid, encB(v), h, encL([]string{g.pick([]string{"GET", "POST"})}))
		h++
		probe()
	}
}

func streamReject(g *G) { // C17
	rid := 1
	for !g.full() {
		if g.chance(0.25) {
			g.onlyRouteFamily(rid)
			rid++
		}
		if g.chance(0.3) {
			g.splitRemoveFamily(rid)
			rid++
		}
		if g.chance(0.25) {
			g.cleanedStubFamily(rid)
			rid++
		}
		if g.chance(0.3) {
			g.reviveFamily(rid)
			rid++
		}
		if g.chance(0.3) {
			g.upperHalfFamily(rid)
			rid++
		}
		if g.chance(0.25) {
			// routers of one Group are separate routers: a sibling created later with an interceptor option of its own does not
			// change how the first router reads `{uid:digit}` — a name-only variant of its only route stays ambiguous
			gi, ra, rb := 700000+rid, rid, rid+1
			rid += 2
			g.emit("group %d 0 0 %%_ %%- 0 %%- %%- %%- 0 0", gi)
			g.emit("group-new %d %d %s pv:%%_:v1", gi, ra, encB("ga"))
			rule := g.pick([]string{"digit", "[0-9]+", "word"})
			p1, p2 := "/x/{id:"+rule+"}", "/x/{uid:"+rule+"}"
			g.emit("handle %d %s 1 %%- %s", ra, encB(p1), encL([]string{"GET"}))
			g.emit("group-new %d %d %s pv:%%_:v2 %s", gi, rb, encB("gb"), encKVs([]kv{{rule, "1"}}))
			g.emit("handle %d %s 2 %%- %s", ra, encB(p2), encL([]string{"POST"}))
			g.emit("routes %d", ra)
			for _, m := range []string{"GET", "POST", "OPTIONS"} {
				g.serveLine("serve", ra, m, "/x/5", "", nil)
			}
		}
		if g.chance(0.4) {
			g.ambiguityFamily(rid)
			rid++
		}
		if g.chance(0.3) {
			g.twinFamily(rid)
			rid++
		}
		if g.chance(0.3) {
			g.lateRejectFamily(rid)
			rid++
		}
		g.history(rid, histCfg{useIc: g.chance(0.3), trace: g.chance(0.3), probes: 1, probeAll: true, invalid: 0.5, siblings: g.chance(0.2)}, 6+g.intn(14))
		rid++
	}
}

func streamOnion(g *G) { // C09
	rid, gid := 1, 1
	for !g.full() {
		g.history(rid, histCfg{trace: g.chance(0.5), mws: true, probes: 1, probeAll: true}, 5+g.intn(10))
		rid++
		// factory invocations, counted around single calls: repeated registrations on one pattern, Use before/after
		g.routerLine(rid, routerOpt{name: "cnt", trace: g.chance(0.5)})
		pats := []string{"/api/items", "/api/other", "/x/{id}"}
		for i := 0; i < 10; i++ {
			g.emit("mw-calls")
			if g.chance(0.25) {
				g.emit("use %d %s", rid, encNatList(g.mwList()))
			} else {
				g.emit("handle %d %s %d %s %s", rid, encB(g.pick(pats)), 50+i, encNatList(g.mwList()), encL(g.methodList(g.chance(0.85))))
			}
		}
		g.emit("mw-calls")
		rid++
		if g.chance(0.5) {
			// Use AFTER a pattern was emptied by name while its node stayed in the tree (it has a child) and was registered
			// again: the later Use must wrap the revived handlers like every other one (state kept beside the tree — a list
			// of nodes with handlers, say — must follow Remove AND the re-registration)
			g.routerLine(rid, routerOpt{name: "rev", trace: g.chance(0.4)})
			pa := g.pick([]string{"/a", "/v/{id}", "/s"})
			g.emit("handle %d %s 1 %s %s", rid, encB(pa), encNatList(g.mwList()), encL([]string{"GET"}))
			g.emit("handle %d %s 2 %%- %s", rid, encB(pa+"/b"), encL([]string{"GET", "POST"}))
			if g.chance(0.5) {
				g.emit("remove %d %s %s", rid, encB(pa), encL([]string{"GET"}))
			} else {
				g.emit("remove %d %s %%-", rid, encB(pa))
			}
			if g.chance(0.3) {
				g.emit("use %d %s", rid, encNatList(g.mwList()))
			}
			g.emit("handle %d %s 3 %s %s", rid, encB(pa), encNatList(g.mwList()), encL([]string{g.pick([]string{"GET", "PUT"})}))
			g.emit("mw-calls")
			g.emit("use %d %s", rid, encNatList([]int{1 + g.intn(9)}))
			g.emit("mw-calls")
			for _, p := range []string{pa, pa + "/b", "/nf"} {
				for _, m := range []string{"GET", "HEAD", "OPTIONS", "POST", "PUT"} {
					g.serveLine("serve", rid, m, g.instantiate(p, []string{"5"}), "", nil)
				}
			}
			rid++
		}
		// facades and a group
		g.emit("group %d 0 %s %%_ %%- 0 %%- %%- %%- 0 0", gid, b2s(g.chance(0.5)))
		if g.chance(0.5) {
			g.emit("group-use %d %s", gid, encNatList(g.mwList()))
		}
		g.routerLine(rid, routerOpt{name: "ga", trace: g.chance(0.5)})
		if g.chance(0.5) {
			g.emit("use %d %s", rid, encNatList(g.mwList()))
		}
		g.emit("facade 1 %d prefix - %s %s", rid, encB("/p"), encNatList(g.mwList()))
		g.emit("facade 2 %d prefix 1 %s %s", rid, encB("/q"), encNatList(g.mwList()))
		g.emit("facade 3 %d resource 2 %s %s", rid, encB("/res/{id}"), encNatList(g.mwList()))
		g.emit("fhandle 2 %s 1 %s %s", encB("/x"), encNatList(g.mwList()), encL([]string{"GET"}))
		g.emit("fhandle 3 %%_ 2 %s %s", encNatList(g.mwList()), encL([]string{"GET", "POST"}))
		if g.chance(0.5) {
			g.emit("group-add %d %d any", gid, rid)
		}
		g.emit("group-use %d %s", gid, encNatList(g.mwList()))
		g.emit("fhandle 1 %s 3 %s %s", encB("/y"), encNatList(g.mwList()), encL([]string{"PUT"}))
		g.emit("use %d %s", rid, encNatList(g.mwList()))
		// a second router in the same group; router-level Use on both after Add, registrations after that
		g.emit("group-new %d %d %s any", gid, rid+1, encB("gb"))
		g.emit("group-add %d %d any", gid, rid)
		g.emit("use %d %s", rid, encNatList([]int{1 + g.intn(9)}))
		g.emit("use %d %s", rid+1, encNatList([]int{1 + g.intn(9)}))
		if g.chance(0.5) {
			g.emit("group-use %d %s", gid, encNatList([]int{1 + g.intn(9)}))
			g.emit("use %d %s", rid, encNatList([]int{1 + g.intn(9)}))
		}
		g.emit("handle %d /after %d %s %s", rid, 7, encNatList(g.mwList()), encL([]string{"GET"}))
		g.emit("handle %d /after %d %s %s", rid+1, 8, encNatList(g.mwList()), encL([]string{"GET"}))
		for _, m := range []string{"GET", "OPTIONS", "PUT"} {
			g.serveLine("serve", rid, m, "/after", "", nil)
			g.serveLine("serve", rid+1, m, "/after", "", nil)
			g.serveLine("serve", rid+1, m, "/nf", "", nil)
		}
		for _, p := range []string{"/p/q/x", "/p/q/res/5", "/p/y", "/none", "*"} {
			for _, m := range []string{"GET", "HEAD", "OPTIONS", "POST", "TRACE", "PUT"} {
				g.serveLine("serve", rid, m, p, "", nil)
				g.serveLine("gserve", gid, m, p, "", nil)
			}
		}
		rid += 2
		gid++
		// a router created in one group is taken out and added to another one (both groups have Use middlewares): Add is
		// r.Use(g.ms...) of the group it is added to, whatever the router went through before
		if g.chance(0.6) {
			ga, gb := gid, gid+1
			g.emit("group %d 0 %s %%_ %%- 0 %%- %%- %%- 0 0", ga, b2s(g.chance(0.3)))
			g.emit("group %d 0 0 %%_ %%- 0 %%- %%- %%- 0 0", gb)
			g.emit("group-use %d %s", ga, encNatList([]int{1, 2}[:1+g.intn(2)]))
			g.emit("group-use %d %s", gb, encNatList([]int{3, 4, 5}[:1+g.intn(3)]))
			g.emit("group-new %d %d %s any", ga, rid, encB("mv"))
			g.emit("handle %d /m1 1 %s %s", rid, encNatList(g.mwList()), encL([]string{"GET"}))
			if g.chance(0.5) {
				g.emit("group-use %d %s", ga, encNatList([]int{6}))
			}
			g.emit("group-remove %d %s", ga, encB("mv"))
			g.emit("group-add %d %d any", gb, rid)
			g.emit("handle %d /m2 2 %s %s", rid, encNatList(g.mwList()), encL([]string{"GET"}))
			if g.chance(0.4) { // … and back again
				g.emit("group-remove %d %s", gb, encB("mv"))
				g.emit("group-add %d %d any", ga, rid)
				g.emit("handle %d /m3 3 %%- %s", rid, encL([]string{"GET"}))
			}
			for _, p := range []string{"/m1", "/m2", "/m3", "/nf", "*"} {
				for _, m := range []string{"GET", "OPTIONS", "PUT"} {
					g.serveLine("serve", rid, m, p, "", nil)
				}
				g.serveLine("gserve", gb, "GET", p, "", nil)
				g.serveLine("gserve", ga, "GET", p, "", nil)
			}
			rid++
			gid += 2
		}
	}
}

func streamURL(g *G) { // C10
	rid := 1
	for !g.full() {
		useIc := g.chance(0.5)
		dom := g.pick([]string{"", "https://example.com", "https://example.com/", "/"})
		o := routerOpt{name: "u", domain: dom}
		if useIc {
			o.icpt = icptTable
		}
		g.routerLine(rid, o)
		var pool []string
		for i := 0; i < 3+g.intn(6); i++ {
			p := g.pattern(useIc)
			if len(pool) > 0 && g.chance(0.5) {
				p = g.mutatePattern(g.pick(pool), useIc)
			}
			pool = append(pool, p)
			g.emit("handle %d %s %d %%- %s", rid, encB(p), i+1, encL([]string{"GET"}))
		}
		if g.chance(0.5) {
			g.emit("remove %d %s %%-", rid, encB(g.pick(pool)))
		}
		for i := 0; i < 25; i++ {
			p := g.pick(pool)
			switch g.intn(10) {
			case 0:
				p = g.pick(malformed)
			case 1:
				p = g.mutatePattern(p, useIc)
			case 2:
				if len(p) > 1 {
					p = p[:1+g.intn(len(p)-1)] // interior prefix
				}
			}
			ps := g.paramsFor(p)
			if g.chance(0.15) {
				ps = "%-"
			}
			g.emit("url %d %s %s %s", rid, b2s(g.chance(0.6)), encB(p), ps)
			if g.chance(0.3) {
				g.emit("murl %s %s", encB(p), ps)
			}
			g.serveLine("serve", rid, "GET", g.pathFor(pool), "", nil)
		}
		rid++
	}
}

var corsOrigins = [][]string{nil, {"https://a.example"}, {"https://a.example", "https://b.example"}, {"*"}, {"https://a.example", "*"},
	{"https://b.example", "https://a.example", "https://b.example"}, // a duplicate, unsorted
	{"https://a.example", "https://b.example", "https://c.example", "https://d.example", "https://e.example", "https://f.example", "https://g.example", "https://h.example", "https://i.example", "https://j.example"}}
var corsAllowH = [][]string{nil, {"Content-Type"}, {"Content-Type", "X-Token"}, {"*"}, {"x-lower"}, {"Content-Type", "X-UID", "X-Ua"}, {"authorization", "X-Token", "Accept"}, {"X-b", "X-B1", "x-a", "X-C"}, {"Zeta", "alpha", "Beta", "gamma", "Delta"}}
var corsExposed = [][]string{nil, {"X-A"}, {"X-A", "X-B"}, {"*"}, {"X-Total-Count", "*", "ETag"}, {"*", "X-A"}, {"x-lower", "X-UPPER"}}

func streamCors(g *G) { // C11, C12
	rid := 1
	for !g.full() {
		o := routerOpt{name: "c", cors: true, origins: corsOrigins[g.intn(len(corsOrigins))], allowH: corsAllowH[g.intn(len(corsAllowH))],
			exposed: corsExposed[g.intn(len(corsExposed))], maxAge: []int{-1, 0, 50, -2}[g.intn(4)], cred: g.chance(0.4), trace: g.chance(0.2)}
		switch g.intn(10) {
		case 0: // the shape of WithDenyCORS()
			o.origins, o.allowH, o.exposed, o.maxAge, o.cred = nil, nil, nil, 0, false
		case 1: // the shape of WithAllowedCORS(maxAge)
			o.origins, o.allowH, o.exposed, o.cred = []string{"*"}, []string{"*"}, nil, false
		}
		g.routerLine(rid, o)
		if o.maxAge < -1 || (o.cred && contains(o.origins, "*")) {
			rid++
			continue // the constructor rejects this configuration
		}
		g.emit("handle %d /a 1 %%- %s", rid, encL([]string{"GET", "POST"}))
		g.emit("handle %d %s 2 %%- %s", rid, encB("/u/{id}"), encL([]string{"PUT"}))
		if g.chance(0.4) {
			// a handler that adds its own Vary value (a compression layer): what CORS wrote before must stay, also for the
			// requests after it
			g.emit("script 1 a:Vary=Accept-Encoding")
		} else {
			g.emit("script 1 %%-")
		}
		g.emit("mw-script 9 %%-")
		if g.chance(0.4) {
			// the same as a Use middleware (it also runs around the automatic OPTIONS handler, i.e. on refused preflights);
			// requests that pass through it are outside the model (tie: unsupported) but judged, the later ones are compared
			g.emit("use %d 9", rid)
			g.emit("mw-script 9 a:Vary=Accept-Encoding")
		}
		var reqs []corsReq
		for i := 0; i < 40; i++ {
			var h []kv
			switch g.intn(6) {
			case 0:
			case 1:
				h = append(h, kv{"Origin", "https://a.example"})
			case 2:
				h = append(h, kv{"Origin", "https://b.example"})
			case 3:
				h = append(h, kv{"Origin", "https://evil.example"})
			case 4:
				h = append(h, kv{"Origin", "*"})
			case 5:
				h = append(h, kv{"Origin", "HTTPS://A.example"})
			}
			if g.chance(0.6) {
				h = append(h, kv{"Access-Control-Request-Method", g.pick([]string{"GET", "POST", "PUT", "DELETE", "get", "OPTIONS", "HEAD", "", "E", "GET, HEAD", "LETE", ", ", "HEAD, OPTIONS", "T", "POST, PUT", "GET,POST"})})
			}
			if g.chance(0.6) {
				v := g.pick([]string{"Content-Type", "content-type", "X-Token, Content-Type", " x-token ,CONTENT-TYPE", "X-Other", "Content-Type,X-Other", "", " ", "a,,b", "X-Lower", "x-lower", "Content-Type,X-\u212aey", "\u00a0Content-Type"})
				if len(o.allowH) > 0 && g.chance(0.6) { // derived from the configuration: every configured name in some spelling
					n := 1 + g.intn(len(o.allowH))
					var items []string
					for _, i := range g.r.Perm(len(o.allowH))[:n] {
						name := o.allowH[i]
						switch g.intn(3) {
						case 0:
							name = strings.ToLower(name)
						case 1:
							name = strings.ToUpper(name)
						}
						items = append(items, g.pick([]string{"", " "})+name)
					}
					v = strings.Join(items, ",")
					if g.chance(0.35) { // one name outside the configured list, before or after the allowed ones
						if g.chance(0.5) {
							v = v + ", X-Forbidden"
						} else {
							v = "X-Forbidden," + v
						}
					}
				}
				h = append(h, kv{"Access-Control-Request-Headers", v})
			}
			m := g.pick([]string{"OPTIONS", "OPTIONS", "GET", "POST", "PUT", "DELETE", "HEAD", "", "TRACE"})
			p := g.pick([]string{"/a", "/a", "/u/5", "/none", "*", ""})
			g.serveLine("serve", rid, m, p, "", h)
			reqs = append(reqs, corsReq{m, p, h})
		}
		g.emit("mw-script 9 %%-")
		for _, q := range []corsReq{{"GET", "/a", []kv{{"Origin", "https://a.example"}}}, {"OPTIONS", "/a", []kv{{"Origin", "https://a.example"}, {"Access-Control-Request-Method", "GET"}}}, {"GET", "/u/5", []kv{{"Origin", "https://b.example"}}}} {
			g.serveLine("serve", rid, q.m, q.p, "", q.h)
		}
		if g.chance(0.5) {
			// the route table changes between preflights: a further method on a live pattern, a removed method, a new
			// pattern, a cleaned prefix; the preflights are repeated after every step (the Allow set they answer with, and
			// whether the requested method is served, are those of the table as it is NOW)
			steps := [][]string{
				{"handle %d /a 3 %%- " + encL([]string{"DELETE"})},
				{"handle %d " + encB("/u/{id}") + " 4 %%- " + encL([]string{"GET", "PATCH"})},
				{"remove %d /a " + encL([]string{"POST"})},
				{"remove %d /a " + encL([]string{"DELETE"})},                                    // a method the route may not have: ignored
				{"remove %d /a " + encL([]string{"PATCH", "CONNECT"}), "remove %d /a " + encL([]string{"PATCH"})}, // twice
				{"remove %d " + encB("/u/{id}") + " " + encL([]string{"PUT"})},
				{"remove %d /a " + encL([]string{"POST", "PATCH"})},                                // a live method first, an absent one LAST
				{"remove %d /a " + encL([]string{"GET", "CONNECT", "TRACE"})},                      // the same with GET (HEAD goes with it)
				{"remove %d " + encB("/u/{id}") + " " + encL([]string{"GET", "PUT", "DELETE"})}, // everything it has, then an absent one
				{"handle %d /b 5 %%- " + encL([]string{"PUT"})},
				{"clean %d /u"},
				{"remove %d /a %%-", "handle %d /a 6 %%- " + encL([]string{"PUT"})},
			}
			for _, i := range g.r.Perm(len(steps))[:2+g.intn(4)] {
				for _, f := range steps[i] {
					g.emit(f, rid)
				}
				g.emit("routes %d", rid)
				for _, path := range []string{"/a", "/u/5", "/b", "", "*"} {
					for _, acrm := range []string{"GET", "POST", "PUT", "DELETE", "PATCH"} {
						if g.chance(0.45) {
							continue
						}
						h := []kv{{"Origin", "https://a.example"}, {"Access-Control-Request-Method", acrm}}
						if g.chance(0.3) {
							h = append(h, kv{"Access-Control-Request-Headers", "Content-Type"})
						} else if len(o.allowH) > 0 && o.allowH[0] != "*" && g.chance(0.4) {
							// names that are FRAGMENTS of a configured name (or of the joined list), lists with empty items
							name := o.allowH[g.intn(len(o.allowH))]
							frag := name
							if len(name) > 3 {
								a := g.intn(len(name) - 2)
								frag = name[a : a+2+g.intn(len(name)-a-1)]
							}
							h = append(h, kv{"Access-Control-Request-Headers", g.pick([]string{frag, strings.ToLower(frag), name + ",", "," + name, name + ", " + frag, strings.ToLower(name)})})
						}
						g.serveLine("serve", rid, "OPTIONS", path, "", h)
					}
					g.serveLine("serve", rid, g.pick([]string{"GET", "POST", "PUT", "DELETE"}), path, "", []kv{{"Origin", "https://a.example"}})
				}
			}
		}
		if g.chance(0.35) {
			// the same configuration as a Group option: NewGroup applies the options once, every Group.New applies the SAME
			// option values again to the router it creates
			ra, rb := 100000+rid, 200000+rid
			g.emit("group %d 0 %s %%_ %%- 1 %s %s %s %d %s", rid, b2s(o.trace), encL(o.origins), encL(o.allowH), encL(o.exposed), o.maxAge, b2s(o.cred))
			g.emit("group-new %d %d %s pv:%%_:v9", rid, ra, encB("ga"))
			g.emit("group-new %d %d %s any", rid, rb, encB("gb"))
			for _, r := range []int{ra, rb} {
				g.emit("handle %d /a 1 %%- %s", r, encL([]string{"GET", "POST"}))
				g.emit("handle %d %s 2 %%- %s", r, encB("/u/{id}"), encL([]string{"PUT"}))
			}
			for i, q := range reqs {
				if i >= 16 {
					break
				}
				g.serveLine("gserve", rid, q.m, q.p, "", q.h)
				g.serveLine("serve", rb, q.m, q.p, "", q.h)
			}
		}
		rid++
	}
}

type corsReq struct {
	m, p string
	h    []kv
}

func (g *G) matcherExpr(depth int, hostIDs []int) string {
	k := g.intn(8)
	if depth <= 0 && k >= 5 {
		k = g.intn(5)
	}
	switch k {
	case 0:
		return "any"
	case 1, 2:
		if len(hostIDs) > 0 {
			return fmt.Sprintf("hosts:%d", hostIDs[g.intn(len(hostIDs))])
		}
		return "any"
	case 3:
		vs := [][]string{{"v1"}, {"/v1", "v2/"}, {"v1", "v11"}, {"v11", "v1"}, {"/v2/"}}[g.intn(5)]
		return "pv:" + encB(g.pick([]string{"", "version", "id", "ver"})) + ":" + encVersions(vs)
	case 4:
		vs := [][]string{{"1"}, {"1", "2"}, {"2.0"}}[g.intn(3)]
		return "hv:" + encB(g.pick([]string{"", "ver", "version", "id"})) + ":" + encB(g.pick([]string{"", "version", "v"})) + ":" + encVersions(vs)
	default:
		n := 1 + g.intn(3)
		parts := make([]string, n)
		for i := range parts {
			parts[i] = g.matcherExpr(depth-1, hostIDs)
		}
		if k < 7 {
			return "and(" + strings.Join(parts, ";") + ")"
		}
		return "or(" + strings.Join(parts, ";") + ")"
	}
}

func encVersions(vs []string) string {
	if len(vs) == 0 {
		return "%-"
	}
	out := make([]string, len(vs))
	for i, v := range vs {
		out[i] = encB(v)
	}
	return strings.Join(out, "+")
}

var hostNames = []string{"[FE80::1]", "[fe80::1]:8080", "[2001:DB8::A]:443", "[2001:db8::a]", "FE80::1", "example.com", "api.example.com", "API.Example.com", "a.example.com:8080", "example.com:", "example.com:x", "[::1]", "[::1]:80", "b.example.com", "x.y.example.com", "", "*", "localhost", "EXAMPLE.COM", "example.com:80:", ":80", "[", "]", "[]", "example.com:9", "example.com:/", "example.com:-1", "api.example.com:8.0", "example.com:0909", "b.example.com:99"}
var acceptValues = []string{"", "application/json; version=1", "application/json;version=2", "text/html; v=1", "application/json; version=\"1\"", "bad;;", "application/json", "application/json; VERSION=1", "*/*; version=2.0", "a/b; ver=1; version=2"}

func (g *G) groupRequests(gid int, n int) {
	for i := 0; i < n; i++ {
		var h []kv
		if g.chance(0.6) {
			h = append(h, kv{"Accept", g.pick(acceptValues)})
		}
		p := g.pick([]string{"/a", "/v1/a", "/v2/a", "/v11/a", "/v1", "/v1/", "/v1/v1/a", "/u/5", "/v2/u/5", "/none", "*", "", "/v1a"})
		g.serveLine("gserve", gid, g.pick([]string{"GET", "GET", "POST", "OPTIONS", "HEAD"}), p, g.pick(hostNames), h)
	}
}

func streamGroup(g *G) { // C13
	rid, gid, hid := 1, 1, 1
	for !g.full() {
		var hostIDs []int
		for i := 0; i < 2; i++ {
			doms := [][]string{{"example.com"}, {"api.example.com", "{sub}.example.com"}, {"{version}.example.com"}, nil}[g.intn(4)]
			g.emit("hosts %d %s", hid, encL(doms))
			hostIDs = append(hostIDs, hid)
			hid++
		}
		g.emit("group %d %s 0 %%_ %%- 0 %%- %%- %%- 0 0", gid, b2s(g.chance(0.3)))
		names := []string{"r1", "r2", "r3", "r1", "r4"}
		nr := 2 + g.intn(3)
		for i := 0; i < nr; i++ {
			name := names[g.intn(len(names))]
			m := g.matcherExpr(2, hostIDs)
			if g.chance(0.5) {
				g.routerLine(rid, routerOpt{name: name})
				g.emit("group-add %d %d %s", gid, rid, m)
			} else {
				g.emit("group-new %d %d %s %s", gid, rid, encB(name), m)
			}
			g.emit("handle %d /a %d %%- %s", rid, rid*10+1, encL([]string{"GET"}))
			g.emit("handle %d %s %d %%- %s", rid, encB("/u/{id}"), rid*10+2, encL([]string{"GET", "POST"}))
			if g.chance(0.3) {
				g.emit("handle %d %s %d %%- %s", rid, encB("/v1/a"), rid*10+3, encL([]string{"GET"}))
			}
			rid++
			if g.chance(0.3) {
				g.emit("group-use %d %s", gid, encNatList(g.mwList()))
			}
		}
		g.emit("group-names %d", gid)
		g.emit("group-routes %d", gid)
		g.emit("group-router %d %s", gid, encB(g.pick([]string{"r1", "r2", "r3", "r4", "nope", ""})))
		g.groupRequests(gid, 25)
		// matcher expressions on their own, entered with parameters that an inner member may overwrite
		for i := 0; i < 12; i++ {
			var h []kv
			accept := "%!"
			if g.chance(0.7) {
				a := g.pick(acceptValues)
				h = append(h, kv{"Accept", a})
				if _, ps, err := mime.ParseMediaType(a); err == nil {
					accept = encMap(ps)
				}
			}
			p := g.pick([]string{"/a", "/v1/a", "/v2/a", "/v11/a", "/v1/path", "/u/5", "/none"})
			ps := g.pick([]string{"%-", "version=old", "ver=9,id=7", "version=2", "sub=x"})
			g.emit("match %s GET %s %s %s %s %s", g.matcherExpr(3, hostIDs), encB(p), encB(g.pick(hostNames)), encKVs(h), accept, ps)
		}
		// a matcher parameter that has the name of a route parameter on a branch the router tries and abandons
		if g.chance(0.5) {
			cg, cr := 500000+gid, 500000+rid
			key := g.pick([]string{"id", "name", "ver"})
			g.emit("group %d 0 0 %%_ %%- 0 %%- %%- %%- 0 0", cg)
			g.emit("group-new %d %d %s %s", cg, cr, encB("col"), g.pick([]string{"pv:" + key + ":v1", "and(pv:" + key + ":v1;any)", "or(hv:" + key + ":version:9;pv:" + key + ":v1)"}))
			for i, p := range []string{"/u/{id}/a", "/u/{id}/c", "/u/{name}/b", "/w/{ver:\\d+}x", "/w/{other}"} {
				g.emit("handle %d %s %d %%- %s", cr, encB(p), i+1, encL([]string{"GET"}))
			}
			for _, p := range []string{"/v1/u/5/b", "/v1/u/5/z", "/v1/u/5/a", "/v1/w/7y", "/v1/w/7x", "/v1/none", "/v2/u/5/b"} {
				g.serveLine("gserve", cg, g.pick([]string{"GET", "POST", "OPTIONS"}), p, "", nil)
			}
			rid++
		}
		// a Hosts matcher grows AFTER it was composed into And/Or matchers: a parameter domain added later captures a
		// parameter; when a later And member rejects and another Or member accepts, nothing of it may be left
		if g.chance(0.4) {
			hg, hr, hh := 600000+gid, 600000+rid, 7000+gid
			g.emit("hosts %d %s", hh, encL([]string{"api.example.com"}))
			g.emit("group %d 0 0 %%_ %%- 0 %%- %%- %%- 0 0", hg)
			g.emit("group-new %d %d %s %s", hg, hr, encB("late"), fmt.Sprintf("or(and(hosts:%d;pv:%%_:v1);pv:%%_:v2)", hh))
			g.emit("handle %d /x 1 %%- %s", hr, encL([]string{"GET"}))
			probe := func() {
				for _, q := range [][2]string{{"acme.example.com", "/v2/x"}, {"acme.example.com", "/v1/x"}, {"api.example.com", "/v2/x"}, {"api.example.com", "/v1/x"}, {"other.org", "/v2/x"}} {
					g.serveLine("gserve", hg, "GET", q[1], q[0], nil)
				}
			}
			probe()
			g.emit("hosts-add %d %s", hh, encB("{tenant}.example.com"))
			probe()
			// two requests alive at once after requests went through the group (contexts are pooled; a group request hands
			// its context to the router it dispatches to — released once)
			g.emit("handle %d %s 2 %%- %s", hr, encB("/item/{i}/{j}"), encL([]string{"GET"}))
			g.serveLine("gserve", hg, "GET", "/v2/item/a/b", "acme.example.com", nil)
			g.emit("nserve %d %s %s %%_ %%- %%! %s %s", hr, encB("GET"), encB("/item/o1/o2"), encB("GET"), encB("/item/i1/i2"))
			g.serveLine("gserve", hg, "GET", "/v2/x", "acme.example.com", nil)
			g.emit("nserve %d %s %s %%_ %%- %%! %s %s", hr, encB("GET"), encB("/item/p1/p2"), encB("GET"), encB("/x"))
			rid++
		}
		g.emit("group-remove %d %s", gid, encB(g.pick(names)))
		g.emit("group-names %d", gid)
		g.emit("group-routes %d", gid)
		g.emit("group-router %d %s", gid, encB(g.pick([]string{"r1", "r2", "r3", "r4", "nope", ""})))
		g.groupRequests(gid, 10)
		// several removals and re-creations by name: whatever is kept beside the router list (an index by name, counters)
		// must follow; every name is looked up after every step
		for k := 0; k < 2+g.intn(3); k++ {
			name := g.pick([]string{"r1", "r2", "r3", "r4"})
			if g.chance(0.6) {
				g.emit("group-remove %d %s", gid, encB(name))
			} else {
				g.emit("group-new %d %d %s %s", gid, rid, encB(name), g.pick([]string{"any", "pv:v:v1", "pv:v:v2"}))
				g.emit("handle %d /a %d %%- %s", rid, rid*10+1, encL([]string{"GET"}))
				rid++
			}
			g.emit("group-names %d", gid)
			for _, n := range []string{"r1", "r2", "r3", "r4"} {
				g.emit("group-router %d %s", gid, encB(n))
			}
			g.groupRequests(gid, 4)
		}
		gid++
	}
}

func streamHosts(g *G) { // C14
	hid := 1
	doms := []string{"é.example.com", "example.com", "API.example.com", "b.example.com", "c.example.com", "d.example.com", "e.example.com", "f.example.com", "{sub}.example.com", "{sub:\\d+}.example.net", "{w:word}.example.org", "localhost", "::1", "fe80::1", "2001:DB8::A", "{a}.{b}.example.io", "x.example.com", "{-skip}.internal"}
	for !g.full() {
		var initial []string
		for i := 0; i < g.intn(9); i++ {
			initial = append(initial, g.pick(doms))
		}
		initial = dedup(initial)
		if g.chance(0.3) {
			// >= 5 top-level domains (first-byte index) two of which hang under a handler-less split node ("ap"):
			// deleting both prunes two levels at once
			tld := g.pick([]string{"example.com", "h.io"})
			fam := []string{"api." + tld, "app." + tld, "blog." + tld, "cdn." + tld, "docs." + tld, tld, "{sub}." + tld}
			g.emit("hosts %d %s", hid, encL(fam))
			probe := func() {
				for _, h := range []string{"api." + tld, "app." + tld, "blog." + tld, "cdn." + tld, "docs." + tld, tld, "www." + tld, "a." + tld} {
					g.emit("hosts-match %d %s", hid, encB(h))
				}
			}
			probe()
			for _, d := range []string{"api." + tld, "APP." + tld, "cdn." + tld} {
				g.emit("hosts-del %d %s", hid, encB(d))
				probe()
			}
			hid++
		}
		if g.chance(0.2) {
			// upper-case letters inside the RULE of a parameter: Add/Delete lower-case the whole domain, rule included
			doms2 := []string{"{Sub:[A-Z]+}.Example.com", "{id:\\D+}.n.example.com", "{v:[A-Z0-9]+}.API.example.com"}
			g.emit("hosts %d %s", hid, encL(doms2[:1+g.intn(3)]))
			probe := func() {
				for _, h := range []string{"api.example.com", "API.example.COM:8080", "ab.n.example.com", "12.n.example.com", "v1.api.example.com", "x.example.com"} {
					g.emit("hosts-match %d %s", hid, encB(h))
				}
			}
			probe()
			g.emit("hosts-add %d %s", hid, encB("{sub:[a-z]+}.example.com")) // the same domain in lower case: a duplicate
			probe()
			g.emit("hosts-del %d %s", hid, encB("{SUB:[a-z]+}.EXAMPLE.com"))
			probe()
			hid++
		}
		if g.chance(0.25) {
			// two parameter domains share part of their literal text (the tree splits the parameter node); a host repeats the
			// shared fragment; Delete of one domain leaves the other one matching as before (the tree may not re-merge)
			tl := [][2]string{{"com", "org"}, {"co.uk", "com"}, {"example.net", "example.nu"}}[g.intn(3)]
			da, db := "{sub}.example."+tl[0], "{sub}.example."+tl[1]
			g.emit("hosts %d %s", hid, encL([]string{da, db}))
			probe := func() {
				for _, h := range []string{"a.example.x.example." + tl[0], "a.example." + tl[0], "a.example.example." + tl[0], "b.example.c.example." + tl[1], "a.example." + tl[1]} {
					g.emit("hosts-match %d %s", hid, encB(h))
				}
			}
			probe()
			g.emit("hosts-del %d %s", hid, encB(strings.ToUpper(db)))
			probe()
			g.emit("hosts-add %d %s", hid, encB(db))
			probe()
			hid++
		}
		if g.chance(0.2) {
			// a port is ASCII digits: other Unicode digits after the colon are part of the host name
			g.emit("hosts %d %s", hid, encL([]string{"caixw.io", "{sub}.example.com", "::1"}))
			for _, h := range []string{"caixw.io:80", "caixw.io:８０", "caixw.io:8٠", "xx.example.com:२०", "[::1]:๑", "[::1]:8080", "caixw.io:", "caixw.io:８"} {
				g.emit("hosts-match %d %s", hid, encB(h))
			}
			hid++
		}
		if g.chance(0.2) {
			// non-ASCII letters: Add lower-cases the domain, Match the Host — with the same function (outside the model, judged)
			g.emit("hosts %d %s", hid, encL([]string{g.pick([]string{"bücher.example.com", "BÜCHER.example.com", "café.example.org"}), "plain.example.com"}))
			for _, h := range []string{"bücher.example.com", "bÜcher.example.com", "BÜCHER.example.com:80", "bÜcher.example.com:80", "café.example.org", "cafÉ.example.org", "CAFÉ.example.org", "plain.example.com"} {
				g.emit("hosts-match %d %s", hid, encB(h))
			}
			hid++
		}
		if g.chance(0.3) {
			// wildcard domains whose parameter is IGNORED ({-sub}): an accepting Match writes no parameter, exactly like a literal
			// domain; repeated matches of one host around Delete/Add of the wildcard (in another spelling) and of a literal
			// neighbour: the answer is that of the CURRENT table every time
			wild := g.pick([]string{"{-sub}.example.com", "{-sub:[a-z]+}.example.com", "{-s}.cdn.example.net"})
			lit := "static.example.com"
			host := g.pick([]string{"img.example.com", "img.cdn.example.net", "IMG.example.com:8080"})
			g.emit("hosts %d %s", hid, encL([]string{wild, lit}))
			probe := func() {
				for _, h := range []string{host, lit, "Static.Example.com", "x.y.example.org", host} { // the wildcard host FIRST and LAST: a one-entry memo keeps it over the next table change
					g.emit("hosts-match %d %s", hid, encB(h))
				}
			}
			probe()
			g.emit("hosts-del %d %s", hid, encB(strings.ToUpper(wild[:5])+wild[5:]))
			probe()
			g.emit("hosts-del %d %s", hid, encB(lit))
			probe()
			g.emit("hosts-add %d %s", hid, encB(wild))
			probe()
			hid++
		}
		if g.chance(0.25) {
			// an interceptor registered AFTER domains that use its name as a rule: later domains with the same token are
			// interceptor nodes, earlier ones regexp nodes with the same text; then deletes
			tok := g.pick([]string{"{a:digit}", "{a:word}"})
			name := tok[3 : len(tok)-1]
			val := map[string]string{"digit": "5", "word": "ab"}[name]
			early := []string{tok + ".x.com", tok + ".x.org"}
			late := []string{tok + ".x.net", tok + ".x.org2"}
			g.emit("hosts %d %s", hid, encL(early))
			probe := func() {
				for _, h := range []string{val + ".x.com", val + ".x.org", val + ".x.net", val + ".x.org2", name + ".x.com", name + ".x.org", name + ".x.net", "zz.x.net"} {
					g.emit("hosts-match %d %s", hid, encB(h))
				}
			}
			probe()
			g.emit("hosts-icpt %d %s %d", hid, encB(name), map[string]int{"digit": 1, "word": 2}[name])
			probe()
			for _, d := range late {
				g.emit("hosts-add %d %s", hid, encB(d))
				probe()
			}
			for _, d := range append(append([]string{}, early...), late[0]) {
				g.emit("hosts-del %d %s", hid, encB(d))
				probe()
			}
			hid++
		}
		g.emit("hosts %d %s", hid, encL(initial))
		for s := 0; s < 12; s++ {
			switch g.intn(5) {
			case 0, 1:
				g.emit("hosts-add %d %s", hid, encB(g.pick(doms)))
			case 2:
				d := g.pick(doms)
				if g.chance(0.5) {
					d = strings.ToUpper(d)
				}
				g.emit("hosts-del %d %s", hid, encB(d))
			case 3:
				g.emit("hosts-icpt %d %s %d", hid, encB(g.pick([]string{"word", "digit", `\d+`})), 1+g.intn(2))
			}
			for i := 0; i < 6; i++ {
				h := g.pick(hostNames)
				if g.chance(0.5) {
					h = g.instantiate(g.pick(doms), []string{"a", "7", "Ab", "x-y", ""})
					if g.chance(0.3) {
						h += g.pick([]string{":80", ":", ":x", ":80:90", ":9", ":8099", ":0", ":/", ":-80", ": 80", ":8.0", ":80/", ":+1", ":9a", ":a9"})
					}
					if g.chance(0.2) {
						h = strings.ToUpper(h)
					}
				}
				g.emit("hosts-match %d %s", hid, encB(h))
			}
		}
		hid++
	}
}

func contains(l []string, s string) bool {
	for _, e := range l {
		if e == s {
			return true
		}
	}
	return false
}

func dedup(l []string) []string {
	seen := map[string]bool{}
	var out []string
	for _, s := range l {
		if !seen[strings.ToLower(s)] {
			seen[strings.ToLower(s)] = true
			out = append(out, s)
		}
	}
	return out
}

func streamVersion(g *G) { // C15
	versionLists := [][]string{{"v1"}, {"/v1"}, {"v1/"}, {"/v1/"}, {"v1", "v11"}, {"v11", "v1"}, {"v1", "v2", "v3"}, {""}, {"v1", ""}, {"/"}, {"a/b"}, nil,
		{"v1/x", "v1"}, {"v1", "v1/x"}, {"a", "a/b"}, {"a/b", "a"}, // two listed versions prefix one path: the first listed wins
		{"v1//"}, {"//"}, {"/a//", "a"}, {"v1/x", "v1", "/"}} // repeated slashes inside/at the end of a version; a catch-all listed last
	paths := []string{"/v1//users", "//users", "/a//b/c", "/v1//", "/v1/x/a", "/v1/x/", "/a/b/c", "/a/b/", "/v1/a", "/v1", "/v1/", "/v11/a", "/v1a", "v1/a", "/v2/v1/a", "/v1/v1/a", "", "/", "//", "/a/b/c", "/v3/", "\xff/v1/", "/V1/a"}
	for !g.full() {
		vs := versionLists[g.intn(len(versionLists))]
		g.emit("pv-new %s", encVersions(vs))
		expr := "pv:" + encB(g.pick([]string{"", "version", "v"})) + ":" + encVersions(vs)
		for i := 0; i < 8; i++ {
			p := g.pick(paths)
			if g.chance(0.3) {
				p = g.mutatePath(p)
			}
			ps := g.pick([]string{"%-", "version=old", "k=1"})
			g.emit("match %s GET %s %%_ %%- %%! %s", expr, encB(p), ps)
		}
		if len(vs) >= 2 { // the same matcher object: a request for the LAST listed version, then one that two versions prefix
			last := strings.Trim(vs[len(vs)-1], "/")
			first := strings.Trim(vs[0], "/")
			g.emit("match %s GET %s %%_ %%- %%! %%-", expr, encB("/"+last+"/zz"))
			g.emit("match %s GET %s %%_ %%- %%! %%-", expr, encB("/"+first+"/zz"))
			g.emit("match %s GET %s %%_ %%- %%! %%-", expr, encB("/"+last+"/"+first+"/zz"))
		}
		hvs := [][]string{{"1"}, {"1", "2"}, {"2.0", ""}, nil}[g.intn(4)]
		hexpr := "hv:" + encB(g.pick([]string{"", "version"})) + ":" + encB(g.pick([]string{"", "version", "v"})) + ":" + encVersions(hvs)
		for i := 0; i < 6; i++ {
			a := g.pick(acceptValues)
			if g.chance(0.2) {
				a = randBytes(g, 1+g.intn(10))
			}
			accept := "%!"
			if _, ps, err := mime.ParseMediaType(a); err == nil {
				accept = encMap(ps)
			}
			ps := g.pick([]string{"%-", "version=old"})
			g.emit("match %s GET /a %%_ %s %s %s", hexpr, encKVs([]kv{{"Accept", a}}), accept, ps)
		}
	}
}

func streamFault(g *G) { // C16
	rid, gid := 1, 1
	for !g.full() {
		rec := g.chance(0.6)
		recKinds := []string{"", "", "s500", "w503", "l400", "g418", "s599", "s200", "w404", "s502", "l403", "g451", "w101", "s304"}
		g.routerLine(rid, routerOpt{name: "f", recover: rec, recKind: g.pick(recKinds), trace: g.chance(0.5)})
		g.emit("use %d 1", rid)
		g.emit("handle %d /a 1 2,3 %s", rid, encL([]string{"GET", "POST"}))
		g.emit("handle %d %s 2 %%- %s", rid, encB("/u/{id}"), encL([]string{"PUT"}))
		grec := b2s(g.chance(0.6))
		if k := g.pick(recKinds); grec == "1" && k != "" {
			grec = k
		}
		g.emit("group %d %s 0 %%_ %%- 0 %%- %%- %%- 0 0", gid, grec)
		if g.chance(0.5) { // Group.New with an option of its own: the group's options (recovery among them) still apply
			g.emit("group-new %d %d %s pv:%%_:v1 %s", gid, rid+1, encB("gn"), encKVs([]kv{{"[0-9]+", "5"}}))
		} else {
			g.emit("group-new %d %d %s pv:%%_:v1", gid, rid+1, encB("gn"))
		}
		g.emit("handle %d /a 3 4 %s", rid+1, encL([]string{"GET"}))
		g.emit("hosts %d %s", 900+gid, encL([]string{"only.example.org"}))
		g.emit("group-add %d %d hosts:%d", gid, rid, 900+gid)
		g.emit("group-use %d 5", gid)
		for i := 0; i < 14; i++ {
			hs, ms, bs := map[int]int{}, map[int]int{}, map[int]int{}
			pv := 1 + g.intn(5)
			if g.chance(0.25) {
				pv = []int{99, 98, 97}[g.intn(3)] // http.ErrAbortHandler, an error wrapping it, a plain string
			}
			switch g.intn(5) {
			case 0:
				hs[1+g.intn(3)] = pv
			case 1:
				ms[1+g.intn(5)] = pv
			case 2:
				bs[[]int{1, 2, 3, 4, 7}[g.intn(5)]] = pv
			}
			g.emit("panic-cfg %s %s %s", encIntMap(hs), encIntMap(ms), encIntMap(bs))
			for j := 0; j < 3; j++ {
				m := g.pick([]string{"GET", "POST", "PUT", "OPTIONS", "HEAD", "TRACE", "DELETE"})
				p := g.pick([]string{"/a", "/u/1", "/none", "*", "/v1/a"})
				if g.chance(0.5) {
					g.serveLine("serve", rid, m, p, "", nil)
				} else {
					g.serveLine("gserve", gid, m, p, g.pick([]string{"", "only.example.org", "other.example.org"}), nil)
				}
			}
		}
		g.emit("panic-cfg %%- %%- %%-")
		// later requests are served normally — also two at once (a handler serving a sub-request on the same router)
		for j := 0; j < 3; j++ {
			g.emit("nserve %d %s %s %%_ %%- %%! %s %s", rid, encB(g.pick([]string{"GET", "PUT", "HEAD"})), encB(g.pick([]string{"/u/7", "/a", "/u/8"})),
				encB(g.pick([]string{"PUT", "GET"})), encB(g.pick([]string{"/u/9", "/a", "/none"})))
		}
		rid += 2
		gid++
	}
}

func encIntMap(m map[int]int) string {
	if len(m) == 0 {
		return "%-"
	}
	var out []string
	for k, v := range m {
		out = append(out, fmt.Sprintf("%d=%d", k, v))
	}
	return strings.Join(out, ",")
}

func (g *G) script() string {
	n := g.intn(6)
	var acts []string
	for i := 0; i < n; i++ {
		switch g.intn(6) {
		case 0:
			acts = append(acts, fmt.Sprintf("s:%s=%s", encB(g.pick([]string{"X-A", "Content-Type", "Content-Length", "x-a", "content-length", "X-a", "allow", "vary"})), encB(g.pick([]string{"1", "text/plain", "99"}))))
		case 1:
			acts = append(acts, fmt.Sprintf("a:%s=%s", encB(g.pick([]string{"X-B", "x-b", "Vary", "VARY"})), encB(g.pick([]string{"u", "v"}))))
		case 2:
			acts = append(acts, "d:"+encB(g.pick([]string{"X-A", "Content-Length", "x-A", "content-LENGTH", "vary"})))
		case 3:
			acts = append(acts, fmt.Sprintf("w:%d", []int{200, 201, 204, 404, 500, 103, 100, 101}[g.intn(8)]))
		default:
			acts = append(acts, fmt.Sprintf("b:%d", []int{0, 1, 5, 17, 4096}[g.intn(5)]))
		}
	}
	if len(acts) == 0 {
		return "%-"
	}
	return strings.Join(acts, ";")
}

func streamHead(g *G) { // C08
	rid := 1
	for !g.full() {
		g.routerLine(rid, routerOpt{name: "h", trace: g.chance(0.3)})
		inGroup := g.chance(0.4) // the same router also reached through a Group: HEAD there is the same HEAD
		if inGroup {
			g.emit("group %d 0 0 %%_ %%- 0 %%- %%- %%- 0 0", rid)
			g.emit("group-add %d %d any", rid, rid)
		}
		if g.chance(0.5) {
			// /r is an interior node (a longer pattern lives below it): when its last method is removed BY NAME the node
			// stays in the tree with an empty handler table; a later registration revives it
			g.emit("handle %d %s 9 %%- %s", rid, encB(g.pick([]string{"/r/{id}", "/r/x", "/r.json"})), encL([]string{"GET"}))
		}
		for s := 0; s < 12; s++ {
			switch g.intn(6) {
			case 0, 1:
				ms := g.methodList(g.chance(0.6))
				if g.chance(0.3) {
					ms = append(ms, g.pick([]string{"HEAD", "OPTIONS", "TRACE", "BOGUS", ""}))
					g.r.Shuffle(len(ms), func(i, j int) { ms[i], ms[j] = ms[j], ms[i] })
				}
				g.emit("handle %d /r %d %%- %s", rid, 1+g.intn(3), encL(ms))
			case 2:
				g.emit("remove %d /r %s", rid, encL([]string{g.pick([]string{"GET", "HEAD", "OPTIONS", "POST", "", "TRACE"})}))
			case 3:
				g.emit("remove %d /r %%-", rid)
			default:
				g.emit("script %d %s", 1+g.intn(3), g.script())
			}
			g.emit("routes %d", rid)
			for _, m := range []string{"GET", "HEAD", "OPTIONS", "POST"} {
				g.serveLine("serve", rid, m, "/r", "", nil)
				if inGroup && (m == "GET" || m == "HEAD") {
					g.serveLine("gserve", rid, m, "/r", "", nil)
				}
			}
		}
		rid++
	}
}

func streamTrace(g *G) { // C18
	rid := 1
	for !g.full() {
		tr := g.chance(0.6)
		g.routerLine(rid, routerOpt{name: "t", trace: tr})
		if g.chance(0.5) {
			g.emit("use %d 1,2", rid)
		}
		g.emit("handle %d /a 1 3 %s", rid, encL([]string{"GET"}))
		g.emit("handle %d /t 2 %%- %s", rid, encL([]string{"TRACE"}))
		g.emit("handle %d /tt 3 %%- %s", rid, encL([]string{"POST", "TRACE"}))
		if g.chance(0.5) {
			g.emit("use %d 4", rid)
		}
		g.emit("routes %d", rid)
		probeTrace := func() {
			for _, p := range []string{"/a", "/t", "/tt", "/none", "*", "", "/a/b", "\xff"} {
				g.serveLine("serve", rid, "TRACE", p, "", nil)
				g.serveLine("serve", rid, "OPTIONS", p, "", nil)
				g.serveLine("serve", rid, "PUT", p, "", nil)
			}
		}
		probeTrace()
		// histories that shrink or empty the table
		switch g.intn(5) {
		case 0:
			g.emit("clean %d %%_", rid)
		case 1:
			for _, p := range []string{"/a", "/t", "/tt"} {
				g.emit("remove %d %s %%-", rid, p)
			}
		case 2:
			g.emit("remove %d /a GET", rid)
			g.emit("clean %d /t", rid)
		case 3:
			g.emit("remove %d /tt POST", rid)
		}
		g.emit("routes %d", rid)
		probeTrace()
		if g.chance(0.5) {
			g.emit("handle %d /z 9 %%- %s", rid, encL([]string{"DELETE"}))
			g.emit("routes %d", rid)
			probeTrace()
		}
		// the bundled helper
		for i := 0; i < 6; i++ {
			body := g.pick([]string{"", "<script>alert('x')</script>", "a&b", "\"q\"", "plain", "&amp;", "<>&'\""})
			hdrs := []kv{{"X-H", g.pick([]string{"1", "<b>", "a&b"})}}
			withBody := g.chance(0.5)
			path := g.pick([]string{"/a", "/<x>", "/a&b"})
			if g.chance(0.5) { // exactly ONE kind of metacharacter in the whole dump
				meta := g.pick([]string{"'", "\"", "<", ">", "&"})
				body, hdrs, path, withBody = "plain", []kv{{"X-H", "1"}}, "/a", true
				switch g.intn(3) {
				case 0:
					body = "it" + meta + "s"
				case 1:
					hdrs = []kv{{"X-Name", "O" + meta + "Brien"}}
				default:
					body = meta
				}
			}
			if g.chance(0.15) { // binary bodies: NUL and other control bytes are echoed as they are
				body = g.pick([]string{"bin\x00ary", "\x00", "a\x00b\x01c\x7f"})
			}
			req := mkRequest(encB("TRACE"), encB(path), encB("example.com"), encKVs(hdrs))
			req.Body = io.NopCloser(strings.NewReader(body))
			dump := "%!"
			if d, err := httputil.DumpRequest(req, withBody); err == nil {
				dump = encB(string(d))
			}
			if g.chance(0.3) { // the same request first against a writer that fails, then normally
				g.emit("trace-fail %s TRACE %s %s %s %s", b2s(withBody), encB(path), encKVs(append([]kv{{"Authorization", "Bearer first"}}, hdrs...)), encB("secret "+body), dump)
			}
			g.emit("trace-helper %s TRACE %s %s %s %s", b2s(withBody), encB(path), encKVs(hdrs), encB(body), dump)
		}
		rid++
	}
}

// tokenCuts lists the cut positions just inside, at the end of and one past every {token} of p.
func tokenCuts(p string) []int {
	var out []int
	for i := 0; i < len(p); i++ {
		if p[i] == '{' {
			if i+1 < len(p) {
				out = append(out, i+1)
			}
			if j := strings.IndexByte(p[i:], '}'); j > 0 {
				out = append(out, i+j, i+j+1)
				if i+j+2 <= len(p) {
					out = append(out, i+j+2)
				}
			}
		}
	}
	return out
}

func streamFacade(g *G) { // C19: the same program through façades (router A) and desugared (router B)
	rid := 1
	for !g.full() {
		useIc := g.chance(0.3)
		o := routerOpt{name: "fa", domain: g.pick([]string{"", "", "https://example.com", "https://example.com/"})}
		if useIc {
			o.icpt = icptTable
		}
		a, b := rid, rid+1
		g.routerLine(a, o)
		g.routerLine(b, o)
		type fac struct {
			id       int
			pattern  string
			ms       []int // effective list (own ++ parents')
			own      []int // the list given at creation
			resource bool
		}
		var facs []fac
		nextF := 1
		nextH := 1
		var pool []string
		both := func(fa, fb string) {
			g.emit("%s", fa)
			g.emit("%s", fb)
			if strings.HasPrefix(fa, "fclean") || strings.HasPrefix(fa, "fremove") {
				// the router-wide method set after the façade call and after its desugaring (OPTIONS *, 405 on *)
				g.serveLine("serve", a, "OPTIONS", "*", "", nil)
				g.serveLine("serve", b, "OPTIONS", "*", "", nil)
			}
		}
		if g.chance(0.3) {
			// three sibling parameters of ONE kind whose constraints overlap (the first registered wins a path two of them
			// accept); a façade on one of them is cleaned, the desugared program removes that route: the survivors keep
			// their order whichever position the cleaned one had
			sib := []string{"/u/{id:\\d+}", "/u/{slug:[a-z0-9-]+}", "/u/{name:\\w+}", "/u/{any:.+}"}
			g.r.Shuffle(3, func(i, j int) { sib[i], sib[j] = sib[j], sib[i] })
			for _, p := range sib {
				both(fmt.Sprintf("handle %d %s %d %%- %s", a, encB(p), nextH, encL([]string{"GET"})), fmt.Sprintf("handle %d %s %d %%- %s", b, encB(p), nextH, encL([]string{"GET"})))
				nextH++
			}
			victim := sib[g.intn(2)] // never the last of the three: something moves into its place
			g.emit("facade %d %d prefix - %s %%-", nextF, a, encB(victim))
			both(fmt.Sprintf("fclean %d", nextF), fmt.Sprintf("remove %d %s %%-", b, encB(victim)))
			nextF++
			both(fmt.Sprintf("routes %d", a), fmt.Sprintf("routes %d", b))
			for _, path := range []string{"/u/42", "/u/abc", "/u/a-b", "/u/a_b", "/u/A.b"} {
				g.serveLine("serve", a, "GET", path, "", nil)
				g.serveLine("serve", b, "GET", path, "", nil)
			}
		}
		wide := ""
		if g.chance(0.5) { // >= 5 literal siblings (first-byte index) next to parameter children, then façades ending in a token
			wide = g.pick([]string{"/users/", "/w/", "/"})
			n := 5 + g.intn(3)
			for i := 0; i < n; i++ {
				p := wide + string(rune('a'+i)) + g.pick([]string{"", "ll", "/1"})
				pool = append(pool, p)
				both(fmt.Sprintf("handle %d %s %d %%- %s", a, encB(p), nextH, encL([]string{"GET"})), fmt.Sprintf("handle %d %s %d %%- %s", b, encB(p), nextH, encL([]string{"GET"})))
				nextH++
			}
			for _, t := range []string{"{uid}", "{uid}/posts", "{n:\\d+}/e"}[:1+g.intn(3)] {
				p := wide + t
				pool = append(pool, p)
				both(fmt.Sprintf("handle %d %s %d %%- %s", a, encB(p), nextH, encL([]string{"GET"})), fmt.Sprintf("handle %d %s %d %%- %s", b, encB(p), nextH, encL([]string{"GET"})))
				nextH++
			}
		}
		if g.chance(0.4) {
			// a live route that is a proper prefix of a façade's prefix and ends at a node boundary, everything below it
			// under that prefix: Prefix.Clean must leave it alone (also after one of the routes below was removed)
			fam := [][]string{{"/", "/api/v1", "/api/v2", "/api"}, {"/a", "/a/b", "/a/c", "/a/b"}, {"/s/", "/s/x/1", "/s/x/2", "/s/x"}, {"/u/{id}", "/u/{id}/p/a", "/u/{id}/p/b", "/u/{id}/p"}}[g.intn(4)]
			for _, p := range fam[:3] {
				pool = append(pool, p)
				both(fmt.Sprintf("handle %d %s %d %%- %s", a, encB(p), nextH, encL([]string{"GET"})), fmt.Sprintf("handle %d %s %d %%- %s", b, encB(p), nextH, encL([]string{"GET"})))
				nextH++
			}
			if g.chance(0.4) {
				both(fmt.Sprintf("remove %d %s %%-", a, encB(fam[2])), fmt.Sprintf("remove %d %s %%-", b, encB(fam[2])))
			}
			g.emit("facade %d %d prefix - %s %%-", nextF, a, encB(fam[3]))
			facs = append(facs, fac{id: nextF, pattern: fam[3]})
			both(fmt.Sprintf("fclean %d", nextF), fmt.Sprintf("clean %d %s", b, encB(fam[3])))
			nextF++
			both(fmt.Sprintf("routes %d", a), fmt.Sprintf("routes %d", b))
			for _, p := range fam[:3] {
				w := g.instantiate(p, simpleValues)
				g.serveLine("serve", a, "GET", w, "", nil)
				g.serveLine("serve", b, "GET", w, "", nil)
			}
			g.serveLine("serve", a, "OPTIONS", "*", "", nil)
			g.serveLine("serve", b, "OPTIONS", "*", "", nil)
		}
		if g.chance(0.4) {
			// Prefix.Clean with prefixes that end inside a node leaves handler-less nodes behind (clean never prunes its
			// parents): the text two removed routes shared (/d/b of /d/b1, /d/b2) next to a parameter sibling, and a static
			// Resource whose pattern is the text shared by two live routes (a structural node, not a route)
			for _, p := range []string{"/d/b1", "/d/b2", "/d/{id}", "/files/a.html", "/files/b.html"} {
				pool = append(pool, p)
				both(fmt.Sprintf("handle %d %s %d %%- %s", a, encB(p), nextH, encL([]string{"GET"})), fmt.Sprintf("handle %d %s %d %%- %s", b, encB(p), nextH, encL([]string{"GET"})))
				nextH++
			}
			g.emit("facade %d %d prefix - %s %%-", nextF, a, encB("/files/"))
			g.emit("facade %d %d resource %d %%_ %%-", nextF+1, a, nextF)
			facs = append(facs, fac{id: nextF, pattern: "/files/"}, fac{id: nextF + 1, pattern: "/files/", resource: true})
			for _, strict := range []string{"1", "0"} {
				both(fmt.Sprintf("furl %d %s %%_ %%-", nextF+1, strict), fmt.Sprintf("url %d %s %s %%-", b, strict, encB("/files/")))
			}
			nextF += 2
			for _, pre := range []string{"/d/b1", "/d/b2"} {
				g.emit("facade %d %d prefix - %s %%-", nextF, a, encB(pre))
				facs = append(facs, fac{id: nextF, pattern: pre})
				// desugared: Prefix.Clean removes exactly the routes whose pattern starts with the prefix — here one route
				both(fmt.Sprintf("fclean %d", nextF), fmt.Sprintf("remove %d %s %%-", b, encB(pre)))
				nextF++
				both(fmt.Sprintf("routes %d", a), fmt.Sprintf("routes %d", b))
				for _, w := range []string{"/d/b", "/d/b1", "/d/b2", "/d/5", "/d/"} {
					for _, m := range []string{"GET", "OPTIONS"} {
						g.serveLine("serve", a, m, w, "", nil)
						g.serveLine("serve", b, m, w, "", nil)
					}
				}
			}
		}
		if g.chance(0.4) {
			// the caller's middleware list is a prefix of a longer list it uses again later (ms[:2]... then ms...): a façade
			// with middlewares of its own must not write into the caller's backing array
			own := []int{1 + g.intn(3), 4 + g.intn(3)}
			long := []int{7, 8, 9}
			g.emit("facade %d %d %s - %s %s", nextF, a, "prefix", encB("/al"), encNatList(own))
			f := fac{id: nextF, pattern: "/al", ms: own, own: own}
			facs = append(facs, f)
			nextF++
			for i, l := range [][]int{long, long[:2], long, long[:1], long} {
				sub := "/" + string(rune('k'+i))
				pool = append(pool, f.pattern+sub)
				both(fmt.Sprintf("fhandle %d %s %d %s %s", f.id, encB(sub), nextH, encNatList(l), encL([]string{"GET"})),
					fmt.Sprintf("handle %d %s %d %s %s", b, encB(f.pattern+sub), nextH, encNatList(append(append([]int(nil), l...), f.ms...)), encL([]string{"GET"})))
				nextH++
			}
			for i := 0; i < 5; i++ {
				w := f.pattern + "/" + string(rune('k'+i))
				g.serveLine("serve", a, "GET", w, "", nil)
				g.serveLine("serve", b, "GET", w, "", nil)
			}
		}
		for s := 0; s < 10+g.intn(15); s++ {
			switch k := g.intn(10); {
			case k < 3 || len(facs) == 0:
				pat := g.pick([]string{"/p", "/p/", "/q", "", "/users/{uid}", "/a", "/p/{id", "/x{"})
				if wide != "" && g.chance(0.6) {
					pat = wide + g.pick([]string{"{uid}", "{uid", "{uid}/", "{n:\\d+}", "a", "{"})
				}
				ms := g.mwList()
				if len(ms) == 0 && g.chance(0.6) {
					ms = []int{1 + g.intn(9), 1 + g.intn(9)}
				}
				if len(facs) > 0 && g.chance(0.5) { // the same middleware list given to several façades (shared backing array)
					ms = facs[g.intn(len(facs))].own
				}
				res := g.chance(0.3)
				f := fac{id: nextF, pattern: pat, ms: ms, own: ms, resource: res}
				parent := "-"
				if len(facs) > 0 && g.chance(0.7) {
					var prefixes []fac
					for _, pf := range facs {
						if !pf.resource {
							prefixes = append(prefixes, pf)
						}
					}
					if len(prefixes) > 0 {
						pf := prefixes[g.intn(len(prefixes))]
						parent = strconv.Itoa(pf.id)
						f.pattern = pf.pattern + pat
						f.ms = append(append([]int(nil), ms...), pf.ms...)
					}
				}
				kind := "prefix"
				if res {
					kind = "resource"
				}
				g.emit("facade %d %d %s %s %s %s", nextF, a, kind, parent, encB(pat), encNatList(ms))
				facs = append(facs, f)
				nextF++
			case k < 7:
				f := facs[g.intn(len(facs))]
				sub := g.pick([]string{"/x", "/{id}", "/{id:\\d+}/e", "", "/a", "/a/b", "}/y"})
				if f.resource {
					sub = ""
				}
				ms := g.mwList()
				methods := g.methodList(g.chance(0.8))
				full := f.pattern + sub
				pool = append(pool, full)
				both(fmt.Sprintf("fhandle %d %s %d %s %s", f.id, encB(sub), nextH, encNatList(ms), encL(methods)),
					fmt.Sprintf("handle %d %s %d %s %s", b, encB(full), nextH, encNatList(append(append([]int(nil), ms...), f.ms...)), encL(methods)))
				nextH++
			case k < 8:
				f := facs[g.intn(len(facs))]
				sub := g.pick([]string{"/x", "/{id}", "", "/a"})
				if f.resource {
					sub = ""
				}
				ms := g.methodList(false)
				both(fmt.Sprintf("fremove %d %s %s", f.id, encB(sub), encL(ms)), fmt.Sprintf("remove %d %s %s", b, encB(f.pattern+sub), encL(ms)))
			case k < 9:
				f := facs[g.intn(len(facs))]
				if f.resource {
					both(fmt.Sprintf("fclean %d", f.id), fmt.Sprintf("remove %d %s %%-", b, encB(f.pattern)))
				} else {
					both(fmt.Sprintf("fclean %d", f.id), fmt.Sprintf("clean %d %s", b, encB(f.pattern)))
				}
			default:
				ms := []int{1 + g.intn(9)}
				both(fmt.Sprintf("use %d %s", a, encNatList(ms)), fmt.Sprintf("use %d %s", b, encNatList(ms)))
			}
			both(fmt.Sprintf("routes %d", a), fmt.Sprintf("routes %d", b))
			for i := 0; i < 3; i++ {
				m := g.pick(allMethods)
				p := g.pathFor(pool)
				g.serveLine("serve", a, m, p, "", nil)
				g.serveLine("serve", b, m, p, "", nil)
			}
			if len(facs) > 0 {
				f := facs[g.intn(len(facs))]
				sub := g.pick([]string{"/x", "/{id}", "", "/{id:\\d+}/e"})
				if f.resource {
					sub = ""
				} else if strings.LastIndex(f.pattern, "{") > strings.LastIndex(f.pattern, "}") && g.chance(0.7) {
					sub = g.pick([]string{"d}/profile", "}/p", "x}"}) // closes the open token: no '{' in the sub-pattern itself
				}
				ps := g.paramsFor(f.pattern + sub)
				if g.chance(0.25) {
					ps = "%-" // nothing to fill in: the pattern itself, still behind the router's URL domain
				}
				strict := b2s(g.chance(0.5))
				both(fmt.Sprintf("furl %d %s %s %s", f.id, strict, encB(sub), ps), fmt.Sprintf("url %d %s %s %s", b, strict, encB(f.pattern+sub), ps))
			}
		}
		rid += 2
	}
}

func streamParams(g *G) { // C20
	vals := []string{"", "0", "1", "-1", "+1", "007", "9223372036854775807", "9223372036854775808", "-9223372036854775808", "-9223372036854775809", "18446744073709551615", "18446744073709551616", "1_000", " 1", "1 ", "0x10", "1e3", "1.5", "-0", "NaN", "Inf", "-inf", "true", "T", "TRUE", "True", "tRUE", "f", "false", "F", "abc", "\xff", "é", "1e400", ".5", "5.", "0.1e-2", "infinity", "+", "-"}
	keys := []string{"id", "a", "", "é", "k1", "k2", "\x00", "id ", strings.Repeat("n", 63), strings.Repeat("n", 64), strings.Repeat("m", 65), strings.Repeat("k", 128)}
	for _, v := range vals {
		f, err := strconv.ParseFloat(v, 64)
		res := "syntax"
		if err == nil {
			res = "ok:" + encB(fmtFloat(f))
		} else if ne, ok := err.(*strconv.NumError); ok && ne.Err == strconv.ErrRange {
			res = "range:" + encB(fmtFloat(f))
		}
		g.emit("pf %s %s", encB(v), res)
	}
	cid := 1
	for !g.full() {
		g.emit("ctx-new %d", cid)
		n := g.intn(8)
		if g.chance(0.15) {
			n = 28 + g.intn(8)
		}
		for i := 0; i < n; i++ {
			k := g.pick(keys)
			if n > 10 {
				k = fmt.Sprintf("key%d", i)
			}
			switch g.intn(6) {
			case 0:
				g.emit("ctx-del %d %s", cid, encB(k))
			default:
				g.emit("ctx-set %d %s %s", cid, encB(k), encB(g.pick(vals)))
			}
			if g.chance(0.5) {
				g.emit("ctx-acc %d %s %s %d %d %s %s", cid, encB(g.pick(keys)), encB(g.pick([]string{"", "def"})), g.intn(100)-50, g.intn(100), b2s(g.chance(0.5)), encB(g.pick([]string{"1.5", "0", "-2"})))
			}
		}
		g.emit("ctx-dump %d", cid)
		for _, k := range keys {
			g.emit("ctx-acc %d %s %s %d %d %s %s", cid, encB(k), encB("def"), -7, 7, b2s(g.chance(0.5)), encB("2.5"))
		}
		if g.chance(0.3) {
			g.emit("ctx-reset %d", cid)
			g.emit("ctx-dump %d", cid)
		}
		g.emit("ctx-dirty %d %s %s %s", cid, encB(g.pick([]string{"", "/p"})), encB(g.pick([]string{"", "rn"})), b2s(g.chance(0.5)))
		g.emit("ctx-destroy %d", cid)
		cid++
	}
}

func streamIsolation(g *G) { // C07: decoys interleaved with an observed instance
	// ids >= 1000 are decoys; bin/check runs the stream twice (with and without the decoy lines)
	rid := 1
	// method sets are rendered through a process-wide table: what a router answers for `OPTIONS *` after its table SHRANK
	// must not depend on whether some other router happened to produce the same set by registrations (done first in the
	// stream, with rare sets, so that nothing else has rendered them yet)
	for k, set := range [][]string{{"CONNECT", "PATCH"}, {"CONNECT", "DELETE", "PUT"}, {"CONNECT", "PATCH", "POST"}} {
		ob, dc := 400+k, 1010+k
		g.routerLine(dc, routerOpt{name: "dset"})
		for i, m := range set {
			g.emit("handle %d /d%d 7%d %%- %s", dc, i, i, encL([]string{m}))
		}
		g.serveLine("serve", dc, "OPTIONS", "*", "", nil)
		g.routerLine(ob, routerOpt{name: "oset"})
		g.emit("handle %d /gone 75 %%- %s", ob, encL([]string{"GET"}))
		for i, m := range set {
			g.emit("handle %d /o%d 7%d %%- %s", ob, i, i, encL([]string{m}))
		}
		g.emit("remove %d /gone %%-", ob)
		g.serveLine("serve", ob, "OPTIONS", "*", "", nil)
		g.serveLine("serve", ob, "GET", "*", "", nil)
		g.emit("routes %d", ob)
	}
	for !g.full() {
		// distinct Hosts matchers: what one registers must not change how another parses or matches
		ha, hb := 2000+2*rid, 2001+2*rid
		g.emit("hosts %d %s", ha, encL([]string{"example.com"}))
		g.emit("hosts-icpt %d %s 2", ha, encB("[0-9]+"))
		g.emit("hosts-add %d %s", ha, encB("{id:[0-9]+}.a.example.com"))
		g.emit("hosts %d %s", hb, encL([]string{"{id:[0-9]+}.b.example.com"}))
		g.emit("hosts-icpt %d %s 1", hb, encB("[0-9]+"))
		g.emit("hosts-add %d %s", hb, encB("{n:[0-9]+}.c.example.com"))
		for _, h := range []string{"abc.a.example.com", "12.a.example.com", "abc.b.example.com", "12.b.example.com", "x1.c.example.com", "7.c.example.com"} {
			g.emit("hosts-match %d %s", ha, encB(h))
			g.emit("hosts-match %d %s", hb, encB(h))
		}
		g.routerLine(rid, routerOpt{name: "obs", trace: g.chance(0.5)})
		g.serveLine("serve", rid, "OPTIONS", "*", "", nil)
		// per-request state (HEAD wrapper, contexts) must not travel between instances: a decoy serves HEAD with a body,
		// the observed router then answers HEAD with an explicit status
		g.emit("script 71 w:201;b:7")
		g.emit("script 72 b:5")
		g.emit("handle %d /created 71 %%- %s", rid, encL([]string{"GET"}))
		dd := 1000 + g.intn(3)
		g.routerLine(dd, routerOpt{name: "decoy"})
		g.emit("handle %d /page 72 %%- %s", dd, encL([]string{"GET"}))
		g.serveLine("serve", dd, "HEAD", "/page", "", nil)
		g.serveLine("serve", rid, "HEAD", "/created", "", nil)
		g.serveLine("serve", dd, "GET", "/page", "", nil)
		g.serveLine("serve", rid, "GET", "/created", "", nil)
		// URL building: a decoy router with a URL domain is asked for strict URLs that FAIL after part of the text was produced
		// (a later parameter is missing, or violates its rule); the observed router then builds strict and non-strict URLs —
		// buffers reused between calls (a pool) must come back clean on the error path too
		du := 1003 + g.intn(3)
		g.routerLine(du, routerOpt{name: "durl", domain: "https://d.example"})
		g.emit("handle %d %s 73 %%- %s", du, encB("/posts/{id}/c/{cid:\\d+}"), encL([]string{"GET"}))
		ou := 300 + rid%100
		g.routerLine(ou, routerOpt{name: "ourl", domain: g.pick([]string{"", "https://o.example"})})
		g.emit("handle %d %s 74 %%- %s", ou, encB("/users/{id}"), encL([]string{"GET"}))
		for k := 0; k < 2; k++ {
			bad := [][]kv{{{"id", "7"}}, {{"id", "7"}, {"cid", "x"}}, {{"cid", "5"}}}[g.intn(3)]
			g.emit("url %d 1 %s %s", du, encB("/posts/{id}/c/{cid:\\d+}"), encKVs(bad))
			g.emit("url %d 1 %s %s", ou, encB("/users/{id}"), encKVs([]kv{{"id", "5"}}))
			g.emit("url %d 0 %s %s", ou, encB("/users/{id}"), encKVs([]kv{{"id", "6"}}))
			g.emit("url %d 1 %s %s", ou, encB("/users/{id}"), encKVs(nil)) // fails itself, then once more
			g.emit("url %d 1 %s %s", ou, encB("/users/{id}"), encKVs([]kv{{"id", "8"}}))
		}
		// two requests alive at once on one router (a handler serving a sub-request), before and after a recovered panic and
		// after HEAD requests: contexts are pooled, each request must keep exactly its own parameters
		pr := 500 + rid%400
		g.routerLine(pr, routerOpt{name: "pool", recover: g.chance(0.8), recKind: g.pick([]string{"", "", "s500", "w503"}), trace: g.chance(0.3)})
		g.emit("handle %d %s 81 %%- %s", pr, encB("/slow/{user}"), encL([]string{"GET"}))
		g.emit("handle %d %s 82 %%- %s", pr, encB("/item/{i}/{j}"), encL([]string{"GET", "POST"}))
		g.emit("handle %d /boom 83 %%- %s", pr, encL([]string{"GET"}))
		nested := func(k int) {
			outer := g.pick([]string{"/slow/u" + strconv.Itoa(k), "/item/a" + strconv.Itoa(k) + "/b", "/nowhere"})
			inner := g.pick([]string{"/item/i" + strconv.Itoa(k) + "/j", "/slow/s" + strconv.Itoa(k), "/none", "/boom", "*"})
			g.emit("nserve %d %s %s %%_ %%- %%! %s %s", pr, encB(g.pick([]string{"GET", "GET", "HEAD", "POST", "OPTIONS"})), encB(outer),
				encB(g.pick([]string{"GET", "GET", "HEAD", "DELETE"})), encB(inner))
		}
		nested(0)
		for k := 1; k <= 3; k++ {
			if g.chance(0.7) {
				g.emit("panic-cfg %s %%- %%-", encIntMap(map[int]int{83: k}))
				g.serveLine("serve", pr, g.pick([]string{"GET", "HEAD"}), "/boom", "", nil)
				if g.chance(0.3) {
					nested(10 + k) // the sub-request panics too (inner /boom) or the table is still armed
				}
				g.emit("panic-cfg %%- %%- %%-")
			}
			nested(k)
			nested(k + 3)
			g.serveLine("serve", pr, "GET", "/slow/after"+strconv.Itoa(k), "", nil)
		}
		// routers of ONE group with options of their own: an interceptor given to Group.New for one router must not reach
		// its sibling (same rule text as a regexp there)
		{
			gi := 700 + rid%250
			// the router with the interceptor is a DECOY (id 1000..1999): the judge re-runs the stream without its lines and
			// the plain sibling must answer the same
			ra, rb := 1900+rid%90, 600001+2*rid
			g.emit("group %d 0 0 %%_ %%- 0 %%- %%- %%- 0 0", gi)
			first, second := ra, rb
			if g.chance(0.5) {
				g.emit("group-new %d %d %s pv:%%_:v1 %s", gi, ra, encB("withic"), encKVs([]kv{{"[0-9]+", "5"}}))
				g.emit("group-new %d %d %s pv:%%_:v2", gi, rb, encB("plain"))
			} else {
				g.emit("group-new %d %d %s pv:%%_:v2", gi, rb, encB("plain"))
				g.emit("group-new %d %d %s pv:%%_:v1 %s", gi, ra, encB("withic"), encKVs([]kv{{"[0-9]+", "5"}}))
				first, second = rb, ra
			}
			_, _ = first, second
			for _, r := range []int{ra, rb} {
				g.emit("handle %d %s 1 %%- %s", r, encB("/n/{id:[0-9]+}"), encL([]string{"GET"}))
				g.emit("handle %d %s 2 %%- %s", r, encB("/n/{name}"), encL([]string{"GET"}))
			}
			for _, p := range []string{"/v2/n/42", "/v2/n/ab"} {
				g.serveLine("gserve", gi, "GET", p, "", nil)
			}
			g.serveLine("serve", ra, "GET", "/n/42", "", nil)
			g.serveLine("serve", rb, "GET", "/n/42", "", nil)
			g.serveLine("serve", rb, "GET", "/n/ab", "", nil)
		}
		var isoPool []string
		for s := 0; s < 10; s++ {
			if g.chance(0.7) {
				d := 1000 + g.intn(3)
				switch g.intn(6) {
				case 4: // a decoy Group with its own routers, Use and a served request
					gd := 1100 + g.intn(3)
					g.emit("group %d %s 0 %%_ %%- 0 %%- %%- %%- 0 0", gd, b2s(g.chance(0.5)))
					g.emit("group-use %d %s", gd, encNatList(g.mwList()))
					g.emit("group-new %d %d %s %s", gd, 1500+g.intn(5), encB("dg"), g.pick([]string{"any", "pv:v:v1"}))
					g.serveLine("gserve", gd, "GET", "/v1/x", "", nil)
				case 5: // a decoy Hosts with an interceptor of its own
					hd := 1200 + g.intn(3)
					g.emit("hosts %d %s", hd, encL([]string{"{id:[0-9]+}.decoy.example.com"}))
					g.emit("hosts-icpt %d %s 1", hd, encB("[0-9]+"))
					g.emit("hosts-match %d %s", hd, encB("7.decoy.example.com"))
				case 0:
					g.routerLine(d, routerOpt{name: "decoy", trace: g.chance(0.5)})
				case 1:
					g.emit("handle %d %s %d %%- %s", d, encB(g.pattern(false)), s+1, encL(g.methodList(true)))
				case 2:
					g.emit("remove %d %s %%-", d, encB(g.pattern(false)))
				case 3:
					g.emit("hosts %d %s", d, encL([]string{"decoy.example.com"}))
				}
			}
			op := g.pattern(false)
			if g.chance(0.3) {
				op = g.pick([]string{"/posts/{id:\\d+}", "/items/{id:(a|b)x+}/list", "/t/{-n:[a-z]+}.html", "/u/{n:[a-z]+}.html", "/v/{-id:\\d+}"})
			}
			if g.chance(0.5) { // a decoy registers the twin first: same name, rule and suffix, the other capture mode
				d := 1000 + g.intn(3)
				g.routerLine(d, routerOpt{name: "decoy"})
				g.emit("handle %d %s %d %%- %s", d, encB(twinPattern(op)), s+1, encL([]string{"GET"}))
			}
			isoPool = append(isoPool, op)
			g.emit("handle %d %s %d %%- %s", rid, encB(op), s+1, encL(g.methodList(true)))
			g.emit("routes %d", rid)
			g.serveLine("serve", rid, "OPTIONS", "*", "", nil)
			g.serveLine("serve", rid, "GET", g.pathFor(isoPool), "", nil)
			g.serveLine("serve", rid, "GET", g.instantiate(op, isoValues), "", nil)
		}
		rid++
	}
}

// twinPattern toggles the ignore mark of every {name...} token: {id:r} <-> {-id:r}.
var isoValues = []string{"5", "42", "2024", "z", "zq", "axx", "bx", "ax"}

func twinPattern(p string) string {
	var b strings.Builder
	for i := 0; i < len(p); i++ {
		b.WriteByte(p[i])
		if p[i] == '{' {
			if i+1 < len(p) && p[i+1] == '-' {
				i++
			} else {
				b.WriteByte('-')
			}
		}
	}
	return b.String()
}

// streamRender is not random: every method bitmask (2^len(Methods) of them, and a few beyond) through the method-set
// memo of the implementation and through renderMethods/allowHeader of the model — an exhaustive tie of that table.
func streamRender(g *G) {
	for m := 0; m < 1<<10+8 && !g.full(); m++ { // 9 methods today; the extra bit also covers a table that grows by one
		g.emit("u-render %d", m)
	}
}

func streamUnit(g *G) { // unit level: the parser and the segment matcher through the verif hooks
	ic := encKVs(icptTable)
	for _, seg := range []string{"{tag:any}--edit", "{tag:any}--", "{a:any}aa", "{w:word}abab/", "{id:digit}11/x", "{e:even}22", "{s:starta}aa"} {
		for _, path := range []string{"---edit", "----edit", "--edit", "x--edit", "aaa", "aaaa", "aa", "ababab/", "abababab/", "111/x", "1111/x", "2222", "222", "22", "aaaaa", "aaa-aa"} {
			g.emit("u-match %s %s %s", ic, encB(seg), encB(path))
		}
	}
	for !g.full() {
		useIc := g.chance(0.5)
		p := g.pattern(useIc)
		if g.chance(0.2) {
			p = g.pick(malformed)
		}
		if g.chance(0.15) {
			p = randBytes(g, 1+g.intn(14))
		}
		g.emit("u-split %s", encB(p))
		g.emit("syntax %s", encB(p))
		q := g.mutatePattern(p, useIc)
		g.emit("u-lp %s %s", encB(p), encB(q))
		g.emit("u-lp %s %s", encB(q), encB(p))
		table := "%-"
		if useIc {
			table = ic
		}
		// pieces as NewSegment sees them, and cut versions of them
		pieces := []string{p, q}
		for i := 0; i < len(p); i++ {
			if p[i] == '{' && i > 0 {
				pieces = append(pieces, p[i:], p[:i])
			}
		}
		for _, piece := range pieces {
			if piece == "" {
				continue
			}
			if g.chance(0.3) && len(piece) > 1 {
				piece = piece[:1+g.intn(len(piece)-1)]
			}
			g.emit("u-seg %s %s", table, encB(piece))
			for k := 0; k < 3; k++ {
				path := g.instantiate(piece, trickyValues)
				if g.chance(0.5) {
					path = g.mutatePath(path)
				}
				g.emit("u-match %s %s %s", table, encB(piece), encB(path))
			}
		}
	}
}

var streams = map[string]func(*G){
	"unit": streamUnit, "render": streamRender,
	"dispatch": streamDispatch, "resolve": streamResolve, "lifecycle": streamLifecycle, "allow": streamAllow,
	"crash": streamCrash, "reject": streamReject, "onion": streamOnion, "url": streamURL, "cors": streamCors,
	"group": streamGroup, "hosts": streamHosts, "version": streamVersion, "fault": streamFault, "head": streamHead,
	"trace": streamTrace, "facade": streamFacade, "params": streamParams, "isolation": streamIsolation,
}

// runGen: gen <stream> <seed> <maxOps>
func runGen(args []string) {
	if len(args) < 3 {
		fmt.Fprintln(os.Stderr, "usage: gen <stream> <seed> <maxOps>")
		os.Exit(2)
	}
	f, ok := streams[args[0]]
	if !ok {
		fmt.Fprintln(os.Stderr, "unknown stream", args[0])
		os.Exit(2)
	}
	seed, _ := strconv.ParseUint(args[1], 10, 64)
	max, _ := strconv.Atoi(args[2])
	hh := fnv.New64a()
	hh.Write([]byte(args[0]))
	var buf bytes.Buffer
	g := &G{r: rand.New(rand.NewPCG(seed, hh.Sum64())), w: bufio.NewWriter(&buf), max: max}
	g.emit("# stream=%s seed=%d", args[0], seed)
	f(g)
	g.w.Flush()
	os.Stdout.Write(buf.Bytes())
}
