package main

import (
	"fmt"
	"os"
)

func main() {
	if len(os.Args) < 2 {
		fmt.Fprintln(os.Stderr, "usage: harness exec | gen <stream> <seed> <tier> | race <prop> <seed> <seconds>")
		os.Exit(2)
	}
	switch os.Args[1] {
	case "exec":
		runExec(os.Stdin, os.Stdout)
	case "gen":
		runGen(os.Args[2:])
	case "race":
		runRace(os.Args[2:])
	default:
		fmt.Fprintln(os.Stderr, "unknown command")
		os.Exit(2)
	}
}
