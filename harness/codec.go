package main

// The line protocol shared with the Lean driver (DESIGN §5.1).
// Byte strings are %-escaped; "%_" is the empty string, "%-" the empty list/map.

import (
	"fmt"
	"sort"
	"strconv"
	"strings"
)

func isSafe(b byte) bool {
	switch {
	case b >= '0' && b <= '9', b >= 'A' && b <= 'Z', b >= 'a' && b <= 'z':
		return true
	}
	switch b {
	case '/', '.', '-', '_', '{', '}', '*', '\\', '[', ']', '^', '$', '?', '!', '@', '~', '<', '>', '&', '#':
		return true
	}
	return false
}

func encB(s string) string {
	if s == "" {
		return "%_"
	}
	var sb strings.Builder
	for i := 0; i < len(s); i++ {
		b := s[i]
		if isSafe(b) {
			sb.WriteByte(b)
		} else {
			fmt.Fprintf(&sb, "%%%02x", b)
		}
	}
	return sb.String()
}

func decB(tok string) string {
	if tok == "%_" {
		return ""
	}
	var sb strings.Builder
	for i := 0; i < len(tok); i++ {
		if tok[i] == '%' && i+2 < len(tok) {
			if v, err := strconv.ParseUint(tok[i+1:i+3], 16, 8); err == nil {
				sb.WriteByte(byte(v))
				i += 2
				continue
			}
		}
		sb.WriteByte(tok[i])
	}
	return sb.String()
}

func encL(l []string) string {
	if len(l) == 0 {
		return "%-"
	}
	out := make([]string, len(l))
	for i, s := range l {
		out[i] = encB(s)
	}
	return strings.Join(out, ",")
}

func decL(tok string) []string {
	if tok == "%-" {
		return nil
	}
	parts := strings.Split(tok, ",")
	out := make([]string, len(parts))
	for i, p := range parts {
		out[i] = decB(p)
	}
	return out
}

type kv struct{ k, v string }

func decM(tok string) []kv {
	if tok == "%-" {
		return nil
	}
	var out []kv
	for _, p := range strings.Split(tok, ",") {
		e := strings.Split(p, "=")
		if len(e) == 2 {
			out = append(out, kv{decB(e[0]), decB(e[1])})
		}
	}
	return out
}

func decMap(tok string) map[string]string {
	m := map[string]string{}
	for _, e := range decM(tok) {
		m[e.k] = e.v
	}
	return m
}

func encMap(m map[string]string) string {
	if len(m) == 0 {
		return "%-"
	}
	keys := make([]string, 0, len(m))
	for k := range m {
		keys = append(keys, k)
	}
	sort.Strings(keys)
	out := make([]string, len(keys))
	for i, k := range keys {
		out[i] = encB(k) + "=" + encB(m[k])
	}
	return strings.Join(out, ",")
}

// encKVs keeps the given order (used in op lines, where order is part of the input).
func encKVs(l []kv) string {
	if len(l) == 0 {
		return "%-"
	}
	out := make([]string, len(l))
	for i, e := range l {
		out[i] = encB(e.k) + "=" + encB(e.v)
	}
	return strings.Join(out, ",")
}

func encHdr(h map[string][]string) string {
	if len(h) == 0 {
		return "%-"
	}
	keys := make([]string, 0, len(h))
	for k := range h {
		keys = append(keys, k)
	}
	sort.Strings(keys)
	out := make([]string, len(keys))
	for i, k := range keys {
		vs := make([]string, len(h[k]))
		for j, v := range h[k] {
			vs[j] = encB(v)
		}
		out[i] = encB(k) + "=" + strings.Join(vs, "|")
	}
	return strings.Join(out, ",")
}

func encMethods(ms []string) string {
	if len(ms) == 0 {
		return "%-"
	}
	out := make([]string, len(ms))
	for i, m := range ms {
		out[i] = encB(m)
	}
	return strings.Join(out, "+")
}

func decNatList(tok string) []int {
	if tok == "%-" {
		return nil
	}
	var out []int
	for _, p := range strings.Split(tok, ",") {
		if v, err := strconv.Atoi(p); err == nil {
			out = append(out, v)
		}
	}
	return out
}

func encNatList(l []int) string {
	if len(l) == 0 {
		return "%-"
	}
	out := make([]string, len(l))
	for i, v := range l {
		out[i] = strconv.Itoa(v)
	}
	return strings.Join(out, ",")
}

func decNatMap(tok string) map[int]int {
	m := map[int]int{}
	if tok == "%-" {
		return m
	}
	for _, p := range strings.Split(tok, ",") {
		e := strings.Split(p, "=")
		if len(e) == 2 {
			a, err1 := strconv.Atoi(e[0])
			b, err2 := strconv.Atoi(e[1])
			if err1 == nil && err2 == nil {
				m[a] = b
			}
		}
	}
	return m
}

func b2s(b bool) string {
	if b {
		return "1"
	}
	return "0"
}
