//go:build verif

package main

import (
	"io"
	"os"
	"testing"
)

// TestCoverage runs the op file named by VERIF_COV_OPS through the executor; used with
// `go test -tags verif -coverpkg=github.com/issue9/mux/v9/... -coverprofile=...` by bin/coverage to measure
// how much of /repo the correspondence streams execute.
func TestCoverage(t *testing.T) {
	p := os.Getenv("VERIF_COV_OPS")
	if p == "" {
		t.Skip("VERIF_COV_OPS not set")
	}
	f, err := os.Open(p)
	if err != nil {
		t.Fatal(err)
	}
	defer f.Close()
	runExec(f, io.Discard)
}
