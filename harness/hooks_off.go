//go:build !verif

package main

// Fallback when /repo does not build with the `verif` tag (see hooks_on.go): the hook-based ops are not observations.

import mux "github.com/issue9/mux/v9"

const hooksAvailable = false

func hookRender(mask int) string                                              { return "bad-op nohook" }
func hookSplit(s string) string                                               { return "bad-op nohook" }
func hookLP(a, b string) string                                               { return "bad-op nohook" }
func hookSeg(rules map[string]mux.InterceptorFunc, val string) string         { return "bad-op nohook" }
func hookMatch(rules map[string]mux.InterceptorFunc, val, path string) string { return "bad-op nohook" }
func hookDump(r *mux.Router[*H]) string                                       { return "bad-op nohook" }
