//go:build verif

package main

// Access to the `verif` hooks of /repo (exported internals, DESIGN §0.2). When /repo no longer builds with the tag (a
// refactoring renamed an internal the hook files refer to), bin/check builds the harness WITHOUT the tag: hooks_off.go
// answers these ops with "bad-op nohook", the comparison skips them, and the loss is recorded in the evidence.

import (
	"fmt"

	mux "github.com/issue9/mux/v9"
)

const hooksAvailable = true

func hookRender(mask int) string {
	ms, allow := mux.VerifMethodEntity(mask)
	return "render " + encMethods(ms) + " " + encB(allow)
}

func hookSplit(s string) string { return "split " + encL(mux.VerifSplitString(s)) }

func hookLP(a, b string) string { return fmt.Sprintf("lp %d", mux.VerifLongestPrefix(a, b)) }

func hookSeg(rules map[string]mux.InterceptorFunc, val string) string {
	seg, err := mux.VerifNewSegment(rules, val)
	if err != nil {
		return classify(err)
	}
	return fmt.Sprintf("seg kind=%d name=%s ign=%s rule=%s suffix=%s endpoint=%s amb=%d", seg.Type, encB(seg.Name), b2s(seg.IgnoreName),
		encB(seg.Rule), encB(seg.Suffix), b2s(seg.Endpoint), seg.AmbiguousLength)
}

func hookMatch(rules map[string]mux.InterceptorFunc, val, path string) string {
	ok, ps, rest, err := mux.VerifMatch(rules, val, path)
	if err != nil {
		return classify(err)
	}
	if !ok {
		return "m 0"
	}
	return fmt.Sprintf("m 1 params=%s rest=%s", encMap(ps), encB(rest))
}

func hookDump(r *mux.Router[*H]) string { return "dump " + r.VerifDump() }
