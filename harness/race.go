package main

// race: stress programs for C06 / C07, meant to be built with -race.  They validate the
// lock-discipline facts extracted by factgen (a race report while the facts say "disciplined"
// means the extractor missed an access) and serve as the failing-schedule search once a proof
// obligation of C06/C07 broke.  They are not the proof.
//
// Output: lines "BAD <what>" for inadmissible responses / runtime faults, one "STATS {json}" line;
// the race detector writes its reports to stderr and sets the exit code.

import (
	"encoding/json"
	"fmt"
	"math/rand/v2"
	"net/http"
	"net/url"
	"os"
	"strconv"
	"strings"
	"sync"
	"sync/atomic"
	"time"

	"github.com/issue9/mux/v9"
	"github.com/issue9/mux/v9/types"
)

type probeResult struct {
	base    string
	hid     int
	pattern string
	params  map[string]string
	allow   string
	methods []string
	router  string
	status  int
}

type resultWriter struct {
	hdr    http.Header
	status int
	res    *probeResult
}

func (w *resultWriter) Header() http.Header         { return w.hdr }
func (w *resultWriter) WriteHeader(c int)           { if w.status == 0 { w.status = c } }
func (w *resultWriter) Write(b []byte) (int, error) { if w.status == 0 { w.status = 200 }; return len(b), nil }

// raceCall is a CallFunc without shared state: it reports through the response writer.
func raceCall(w http.ResponseWriter, r *http.Request, route types.Route, h *H) {
	rw, ok := w.(*resultWriter)
	if !ok {
		// HEAD wrapper etc.: nothing to record
		return
	}
	res := &probeResult{params: map[string]string{}, router: route.RouterName()}
	if h == nil {
		res.base = "nil"
		rw.res = res
		return
	}
	res.base, res.hid = h.base, h.hid
	if n := route.Node(); n != nil {
		res.pattern, res.allow, res.methods = n.Pattern(), n.AllowHeader(), n.Methods()
	}
	route.Params().Range(func(k, v string) { res.params[k] = v })
	switch h.base {
	case "options":
		w.Header().Set("Allow", h.node.AllowHeader())
	case "notAllowed":
		w.Header().Set("Allow", h.node.AllowHeader())
		w.WriteHeader(405)
	case "notFound":
		w.WriteHeader(404)
	}
	rw.res = res
}

func serveOnce(h http.Handler, method, path string) (res *probeResult, fault any) {
	defer func() {
		if v := recover(); v != nil {
			fault = v
		}
	}()
	w := &resultWriter{hdr: http.Header{}}
	h.ServeHTTP(w, &http.Request{Method: method, URL: &url.URL{Path: path}, Header: http.Header{}})
	if w.res != nil {
		w.res.status = w.status
	}
	return w.res, nil
}

type reporter struct {
	mu  sync.Mutex
	bad int
}

func (r *reporter) badf(format string, a ...any) {
	r.mu.Lock()
	defer r.mu.Unlock()
	r.bad++
	if r.bad <= 20 {
		fmt.Printf("BAD "+format+"\n", a...)
	}
}

// ---- C06 -----------------------------------------------------------------------------------

type keepRoute struct {
	pattern, witness string
	hid              int
	params           map[string]string
	urlParams        map[string]string
}

func raceC06(seed uint64, seconds int) {
	rep := &reporter{}
	r := mux.NewRouter("locked", raceCall, &H{base: "notFound"}, notAllowedBuilder, optionsBuilder, mux.WithLock(true), mux.WithDigitInterceptor("digit"))
	keep := []keepRoute{
		{"/keep/{id}/x", "/keep/5/x", 1, map[string]string{"id": "5"}, map[string]string{"id": "5"}},
		{"/keep/{id}/y/{n:\\d+}", "/keep/7/y/42", 2, map[string]string{"id": "7", "n": "42"}, map[string]string{"id": "7", "n": "42"}},
		{"/keep/static", "/keep/static", 3, map[string]string{}, map[string]string{"z": "1"}},
		{"/s/a", "/s/a", 4, map[string]string{}, map[string]string{"z": "1"}},
		{"/s/b", "/s/b", 5, map[string]string{}, map[string]string{"z": "1"}},
		{"/s/c", "/s/c", 6, map[string]string{}, map[string]string{"z": "1"}},
		{"/s/d", "/s/d", 7, map[string]string{}, map[string]string{"z": "1"}},
		{"/s/{any}", "/s/QQ", 8, map[string]string{"any": "QQ"}, map[string]string{"any": "QQ"}},
		{"/k/{id:digit}/end", "/k/9/end", 9, map[string]string{"id": "9"}, map[string]string{"id": "9"}},
	}
	for _, k := range keep {
		r.Handle(k.pattern, &H{base: "user:" + strconv.Itoa(k.hid), hid: k.hid}, nil, "GET", "POST")
	}
	// toggled routes: they split and re-merge the nodes of the kept routes; none can serve a kept witness
	type tog struct {
		pattern, probe string
		hid            int
		alt            string // an untouched pattern that serves the probe while the toggled route is absent
	}
	toggled := []tog{
		{"/keep/{id}/xa", "/keep/5/xa", 101, ""}, {"/keep/{id}/x/z", "/keep/5/x/z", 102, ""}, {"/ke", "/ke", 103, ""},
		{"/keep/stat", "/keep/stat", 104, ""}, {"/keep/{id}/y/{n:\\d+}/more", "/keep/7/y/42/more", 105, ""},
		{"/s/e", "/s/e", 106, "/s/{any}"}, {"/s/f", "/s/f", 107, "/s/{any}"}, {"/s/ab", "/s/ab", 108, "/s/{any}"}, {"/k/{id:digit}/e", "/k/9/e", 109, ""},
		{"/t/{a}/{b}", "/t/1/2", 110, ""}, {"/t/{a}/lit", "/t/1/lit", 111, "/t/{a}/{b}"}, {"/keep/{id}/", "/keep/5/", 112, ""},
	}
	hidOf := map[string]int{}
	for _, t := range toggled {
		hidOf[t.pattern] = t.hid
	}
	cleanPrefixes := []string{"/t/", "/s/e", "/s/f", "/ke"} // "/ke" also prefixes /keep…: excluded below
	cleanPrefixes = cleanPrefixes[:3]

	var stop atomic.Bool
	var nServe, nWrite, nRoutes, nURL atomic.Int64
	var wg sync.WaitGroup
	writers, readers := 4, 8
	for wi := 0; wi < writers; wi++ {
		wg.Add(1)
		go func(wi int) {
			defer wg.Done()
			rg := rand.New(rand.NewPCG(seed, uint64(wi)+1))
			for !stop.Load() {
				t := toggled[rg.IntN(len(toggled))]
				func() {
					defer func() {
						if v := recover(); v != nil {
							if cls := classify(v); cls == "fault" {
								rep.badf("writer: runtime fault %v on %s", v, t.pattern)
							}
						}
					}()
					switch rg.IntN(10) {
					case 0, 1, 2, 3, 4:
						r.Handle(t.pattern, &H{base: "user:" + strconv.Itoa(t.hid), hid: t.hid}, nil, []string{"GET", "PUT"}[rg.IntN(2)])
					case 5, 6, 7:
						r.Remove(t.pattern)
					case 8:
						r.Remove(t.pattern, "GET")
					case 9:
						r.Prefix(cleanPrefixes[rg.IntN(len(cleanPrefixes))]).Clean()
					}
				}()
				nWrite.Add(1)
			}
		}(wi)
	}
	for ri := 0; ri < readers; ri++ {
		wg.Add(1)
		go func(ri int) {
			defer wg.Done()
			rg := rand.New(rand.NewPCG(seed, uint64(ri)+100))
			for !stop.Load() {
				switch rg.IntN(10) {
				case 0: // Routes()
					var routes map[string][]string
					func() {
						defer func() {
							if v := recover(); v != nil {
								rep.badf("Routes(): runtime fault %v", v)
							}
						}()
						routes = r.Routes()
					}()
					for _, k := range keep {
						if ms := routes[k.pattern]; strings.Join(ms, ",") != "GET,HEAD,OPTIONS,POST" {
							rep.badf("Routes(): untouched %s has methods %v", k.pattern, ms)
						}
					}
					nRoutes.Add(1)
				case 1: // URL
					k := keep[rg.IntN(len(keep))]
					func() {
						defer func() {
							if v := recover(); v != nil {
								rep.badf("URL(): runtime fault %v", v)
							}
						}()
						u, err := r.URL(true, k.pattern, k.urlParams)
						if err != nil || u != k.witness {
							rep.badf("URL(strict,%s) = %q, %v; want %q", k.pattern, u, err, k.witness)
						}
						// non-strict building parses the pattern text itself (no tree, no tree lock): regexp parameters with
						// ever new text, from several goroutines at once
						n := rg.IntN(1 << 20)
						pat := "/n/" + strconv.Itoa(n) + "/{id:\\d+}/{w:[a-z]+}.x" + strconv.Itoa(n%7)
						if u, err := r.URL(false, pat, map[string]string{"id": "5", "w": "ab"}); err != nil || u != "/n/"+strconv.Itoa(n)+"/5/ab.x"+strconv.Itoa(n%7) {
							rep.badf("URL(non-strict,%s) = %q, %v", pat, u, err)
						}
					}()
					nURL.Add(1)
				case 2, 3, 4: // toggled route: one of its handlers, 404 or 405
					t := toggled[rg.IntN(len(toggled))]
					m := []string{"GET", "PUT", "DELETE", "OPTIONS"}[rg.IntN(4)]
					res, fault := serveOnce(r, m, t.probe)
					if fault != nil {
						rep.badf("serve %s %s: runtime fault %v", m, t.probe, fault)
					} else if res == nil || res.base == "nil" {
						rep.badf("serve %s %s: nil handler", m, t.probe)
					} else if res.pattern != "" && res.pattern == t.alt {
						// the toggled route is absent and another live route legitimately serves the probe
					} else if strings.HasPrefix(res.base, "user:") && (res.hid != t.hid || res.pattern != t.pattern) {
						rep.badf("serve %s %s: foreign handler %d of %q", m, t.probe, res.hid, res.pattern)
					} else if (res.base == "options" || res.base == "notAllowed") && res.pattern != t.pattern {
						rep.badf("serve %s %s: %s of foreign pattern %q", m, t.probe, res.base, res.pattern)
					}
					nServe.Add(1)
				default: // untouched route: its own handler and parameters, always
					k := keep[rg.IntN(len(keep))]
					m := []string{"GET", "POST", "HEAD"}[rg.IntN(3)]
					res, fault := serveOnce(r, m, k.witness)
					if fault != nil {
						rep.badf("serve %s %s: runtime fault %v", m, k.witness, fault)
					} else if m == "HEAD" {
						// headResponse wrapper: nothing recorded; only absence of faults is checked
					} else if res == nil || res.base != "user:"+strconv.Itoa(k.hid) || res.pattern != k.pattern || !sameMap(res.params, k.params) {
						rep.badf("untouched %s %s answered by %+v", m, k.witness, res)
					}
					nServe.Add(1)
				}
			}
		}(ri)
	}
	// fresh-router bursts: nodes are split only the FIRST time a sibling arrives (they never re-merge), so windows that
	// open while a node of a kept route is being split exist once per router: build a new locked router over and over,
	// let one writer register the splitting siblings while readers build strict URLs of, and serve, the kept routes
	var nBursts atomic.Int64
	for bi := 0; bi < 2; bi++ {
		wg.Add(1)
		go func(bi int) {
			defer wg.Done()
			rg := rand.New(rand.NewPCG(seed, uint64(bi)+500))
			for !stop.Load() {
				fr := mux.NewRouter("burst", raceCall, &H{base: "notFound"}, notAllowedBuilder, optionsBuilder, mux.WithLock(true), mux.WithDigitInterceptor("digit"))
				for _, k := range keep {
					fr.Handle(k.pattern, &H{base: "user:" + strconv.Itoa(k.hid), hid: k.hid}, nil, "GET", "POST")
				}
				var bw sync.WaitGroup
				var done atomic.Bool
				bw.Add(1)
				go func() {
					defer bw.Done()
					defer done.Store(true)
					for _, i := range rg.Perm(len(toggled)) {
						t := toggled[i]
						func() {
							defer func() { recover() }()
							fr.Handle(t.pattern, &H{base: "user:" + strconv.Itoa(t.hid), hid: t.hid}, nil, "GET")
						}()
					}
				}()
				for q := 0; q < 2; q++ {
					bw.Add(1)
					go func(q int) {
						defer bw.Done()
						for i := 0; !done.Load() || i < 4; i++ {
							k := keep[(i+q)%len(keep)]
							func() {
								defer func() {
									if v := recover(); v != nil {
										rep.badf("burst URL/serve: runtime fault %v", v)
									}
								}()
								if u, err := fr.URL(true, k.pattern, k.urlParams); err != nil || u != k.witness {
									rep.badf("burst: URL(strict,%s) = %q, %v; want %q", k.pattern, u, err, k.witness)
								}
								if res, fault := serveOnce(fr, "GET", k.witness); fault != nil || res == nil || res.base != "user:"+strconv.Itoa(k.hid) || res.pattern != k.pattern || !sameMap(res.params, k.params) {
									rep.badf("burst: untouched GET %s answered by %+v (fault %v)", k.witness, res, fault)
								}
							}()
						}
					}(q)
				}
				bw.Wait()
				nBursts.Add(1)
			}
		}(bi)
	}
	// duels: two writers race registrations that exclude each other in EVERY sequential order (patterns identical up to a
	// parameter name; the same pattern+method twice; a name-only variant against a further method of the live route). With
	// WithLock(true) the outcome must be that of one of the two orders: exactly one call is rejected, and the table and the
	// answers afterwards are the winner's. (Validation and insertion of one Handle are ONE critical section.)
	var nDuels atomic.Int64
	for di := 0; di < 2; di++ {
		wg.Add(1)
		go func(di int) {
			defer wg.Done()
			rg := rand.New(rand.NewPCG(seed, uint64(di)+900))
			rules := []string{"", ":\\d+", ":[0-9]+(?:[a-f]|[A-F])*[0-9]*", ":digit"}
			for !stop.Load() {
				fr := mux.NewRouter("duel", raceCall, &H{base: "notFound"}, notAllowedBuilder, optionsBuilder, mux.WithLock(true), mux.WithDigitInterceptor("digit"))
				fr.Handle("/health", &H{base: "user:1", hid: 1}, nil, "GET")
				fr.Handle("/orders", &H{base: "user:2", hid: 2}, nil, "GET")
				rule := rules[rg.IntN(len(rules))]
				pa, pb := "/orders/{id"+rule+"}/items", "/orders/{oid"+rule+"}/items"
				ma, mb := "GET", "POST"
				switch rg.IntN(3) {
				case 1: // the same pattern and method twice
					pb, mb = pa, ma
				case 2: // the variant against a further method of an already live route
					fr.Handle(pa, &H{base: "user:3", hid: 3}, nil, "DELETE")
				}
				start := make(chan struct{})
				var rej [2]bool
				var dw sync.WaitGroup
				for k, reg := range [2]struct{ p, m string }{{pa, ma}, {pb, mb}} {
					dw.Add(1)
					go func(k int, p, m string) {
						defer dw.Done()
						defer func() {
							if recover() != nil {
								rej[k] = true
							}
						}()
						<-start
						fr.Handle(p, &H{base: "user:" + strconv.Itoa(10+k), hid: 10 + k}, nil, m)
					}(k, reg.p, reg.m)
				}
				close(start)
				dw.Wait()
				nDuels.Add(1)
				nrej := 0
				for _, b := range rej {
					if b {
						nrej++
					}
				}
				if nrej != 1 {
					rep.badf("duel: Handle(%s %s) and Handle(%s %s) raced on a locked router: %d of the 2 calls were rejected, every sequential order rejects exactly 1 (Routes: %v)", pa, ma, pb, mb, nrej, fr.Routes())
					continue
				}
				win, wp, wm := 10, pa, ma
				if rej[0] {
					win, wp, wm = 11, pb, mb
				}
				wit := "/orders/5/items"
				if res, fault := serveOnce(fr, wm, wit); fault != nil || res == nil || res.base != "user:"+strconv.Itoa(win) || res.pattern != wp {
					rep.badf("duel: after the race %s %s is answered by %+v (fault %v), the accepted call registered user:%d on %s", wm, wit, res, fault, win, wp)
				}
				if pa != pb {
					lost := pb
					if rej[0] {
						lost = pa
					}
					if ms, listed := fr.Routes()[lost]; listed && !hasMethod(ms, "DELETE") {
						rep.badf("duel: the rejected pattern %s is listed by Routes(): %v", lost, fr.Routes())
					}
				}
			}
		}(di)
	}
	// the ONLY route of a locked router comes and goes (the tree passes through "empty"), readers serve it meanwhile: every
	// answer is the route's handler or 404, and nothing is read outside the lock on the way to "this tree is empty"
	var nLone atomic.Int64
	{
		lone := mux.NewRouter("lone", raceCall, &H{base: "notFound"}, notAllowedBuilder, optionsBuilder, mux.WithLock(true))
		wg.Add(1)
		go func() {
			defer wg.Done()
			for !stop.Load() {
				func() {
					defer func() { recover() }()
					lone.Handle("/only/{id}", &H{base: "user:7", hid: 7}, nil, "GET")
				}()
				lone.Remove("/only/{id}")
				nLone.Add(1)
			}
		}()
		for q := 0; q < 2; q++ {
			wg.Add(1)
			go func() {
				defer wg.Done()
				for !stop.Load() {
					res, fault := serveOnce(lone, "GET", "/only/5")
					if fault != nil || res == nil || !(res.base == "user:7" || res.base == "notFound") {
						rep.badf("lone route: GET /only/5 answered by %+v (fault %v); admissible: user:7 or notFound", res, fault)
					}
					if res, fault := serveOnce(lone, "GET", "/other"); fault != nil || res == nil || res.base != "notFound" {
						rep.badf("lone route: GET /other answered by %+v (fault %v); want notFound", res, fault)
					}
				}
			}()
		}
	}
	// façade registrations: two goroutines register through two façades (each with middlewares of its own) of one locked
	// router and hand BOTH the same middleware list, a slice with spare capacity. The list belongs to the caller: a façade
	// that appends its own middlewares to it in place writes the caller's backing array outside the router lock (a data
	// race the detector reports, and a route registered with the other façade's middleware).
	var nFacade atomic.Int64
	wg.Add(1)
	go func() {
		defer wg.Done()
		tag := func(name string) types.Middleware[*H] {
			return types.MiddlewareFunc[*H](func(next *H, method, pattern, router string) *H {
				c := *next
				c.base = next.base + "<" + name
				return &c
			})
		}
		for !stop.Load() {
			fr := mux.NewRouter("fac", raceCall, &H{base: "notFound"}, notAllowedBuilder, optionsBuilder, mux.WithLock(true))
			common := make([]types.Middleware[*H], 1, 4)
			common[0] = tag("log")
			pa := fr.Prefix("/admin", tag("admin"))
			pb := fr.Resource("/public/items", tag("public"))
			var fw sync.WaitGroup
			start := make(chan struct{})
			fw.Add(2)
			go func() {
				defer fw.Done()
				defer func() { recover() }()
				<-start
				for k := 0; k < 4; k++ {
					pa.Handle("/r"+strconv.Itoa(k), &H{base: "user:1", hid: 1}, common, "GET")
				}
			}()
			go func() {
				defer fw.Done()
				defer func() { recover() }()
				<-start
				for _, m := range []string{"GET", "POST", "PUT", "DELETE"} {
					pb.Handle(&H{base: "user:2", hid: 2}, common, m)
				}
			}()
			close(start)
			fw.Wait()
			nFacade.Add(1)
			for k := 0; k < 4; k++ {
				if res, fault := serveOnce(fr, "GET", "/admin/r"+strconv.Itoa(k)); fault != nil || res == nil || res.base != "user:1<log<admin" {
					rep.badf("façade race: GET /admin/r%d is served through %+v (fault %v); registered through the /admin façade with [log]: want user:1<log<admin", k, res, fault)
				}
			}
			if res, fault := serveOnce(fr, "POST", "/public/items"); fault != nil || res == nil || res.base != "user:2<log<public" {
				rep.badf("façade race: POST /public/items is served through %+v (fault %v); want user:2<log<public", res, fault)
			}
		}
	}()
	time.Sleep(time.Duration(seconds) * time.Second)
	stop.Store(true)
	wg.Wait()
	st, _ := json.Marshal(map[string]int64{"lone": nLone.Load(), "facades": nFacade.Load(), "serves": nServe.Load(), "writes": nWrite.Load(), "routes": nRoutes.Load(), "urls": nURL.Load(), "bursts": nBursts.Load(), "duels": nDuels.Load(), "bad": int64(rep.bad), "writers": int64(writers), "readers": int64(readers)})
	fmt.Printf("STATS %s\n", st)
	if rep.bad > 0 {
		os.Exit(1)
	}
}

func hasMethod(ms []string, m string) bool {
	for _, x := range ms {
		if x == m {
			return true
		}
	}
	return false
}

func sameMap(a, b map[string]string) bool {
	if len(a) != len(b) {
		return false
	}
	for k, v := range a {
		if b[k] != v {
			return false
		}
	}
	return true
}

// ---- C07 -----------------------------------------------------------------------------------

func raceC07(seed uint64, seconds int) {
	rep := &reporter{}
	var stop atomic.Bool
	var nOps atomic.Int64
	var wg sync.WaitGroup

	// (a) distinct instances built, mutated and served from different goroutines at the same time
	for gi := 0; gi < 6; gi++ {
		wg.Add(1)
		go func(gi int) {
			defer wg.Done()
			rg := rand.New(rand.NewPCG(seed, uint64(gi)+1))
			for !stop.Load() {
				switch gi % 3 {
				case 0:
					r := mux.NewRouter("own"+strconv.Itoa(gi), raceCall, &H{base: "notFound"}, notAllowedBuilder, optionsBuilder, mux.WithTrace(&H{base: "trace"}))
					pats := []string{"/a", "/a/{id}", "/b/{id:\\d+}/c", "/a/b", "/c"}
					for i, p := range pats {
						r.Handle(p, &H{base: "user:" + strconv.Itoa(i), hid: i}, nil, []string{"GET", "POST", "DELETE", "PATCH"}[rg.IntN(4)])
					}
					if res, _ := serveOnce(r, "OPTIONS", "*"); res == nil || !strings.Contains(res.allow, "OPTIONS") {
						rep.badf("own router: OPTIONS * = %+v", res)
					}
					if res, _ := serveOnce(r, "GET", "/a/77"); res != nil && res.base == "user:1" && res.params["id"] != "77" {
						rep.badf("own router: params %v", res.params)
					}
					r.Remove(pats[rg.IntN(len(pats))])
					r.Routes()
				case 1:
					hs := mux.NewHosts(false, "example.com", "{sub}.example.com")
					ctx := types.NewContext()
					ok := hs.Match(&http.Request{Host: "api.example.com:80", URL: &url.URL{}}, ctx)
					if v, _ := ctx.Get("sub"); !ok || v != "api" {
						rep.badf("own hosts: match=%v sub=%q", ok, v)
					}
					ctx.Destroy()
					hs.Add("x" + strconv.Itoa(rg.IntN(5)) + ".example.org")
					hs.Delete("example.com")
				case 2:
					g := mux.NewGroup(raceCall, &H{base: "groupNotFound"}, notAllowedBuilder, optionsBuilder)
					r := g.New("gr", nil)
					r.Handle("/g/{id}", &H{base: "user:1", hid: 1}, nil, "GET")
					if res, _ := serveOnce(g, "GET", "/g/5"); res == nil || res.params["id"] != "5" {
						rep.badf("own group: %+v", res)
					}
				}
				nOps.Add(1)
			}
		}(gi)
	}

	// (b) one quiescent router (with and without WithLock) served by many goroutines, each seeing its own parameters
	for _, lock := range []bool{false, true} {
		opts := []mux.Option{}
		if lock {
			opts = append(opts, mux.WithLock(true))
		}
		frozen := mux.NewRouter("frozen", raceCall, &H{base: "notFound"}, notAllowedBuilder, optionsBuilder, opts...)
		frozen.Handle("/u/{id}/p/{page}", &H{base: "user:1", hid: 1}, nil, "GET")
		frozen.Handle("/u/{id}", &H{base: "user:2", hid: 2}, nil, "GET", "POST")
		for i := 0; i < 6; i++ {
			frozen.Handle("/lit/"+string(rune('a'+i)), &H{base: "user:" + strconv.Itoa(10+i), hid: 10 + i}, nil, "GET")
		}
		// the build phase ENDS with a Remove and a Clean: whatever they leave to be recomputed must be recomputed by them,
		// not by the first requests of the quiescent phase
		frozen.Handle("/tmp/x", &H{base: "user:30", hid: 30}, nil, "PUT")
		frozen.Handle("/old/{id}", &H{base: "user:31", hid: 31}, nil, "DELETE")
		frozen.Remove("/tmp/x")
		frozen.Prefix("/old").Clean()
		rootAllow := func() {
			for _, m := range []string{"OPTIONS", "GET"} {
				res, fault := serveOnce(frozen, m, "*")
				if fault != nil || res == nil || res.allow != "GET, OPTIONS, POST" {
					rep.badf("frozen: %s * answered %+v %v; the live methods are GET, POST", m, res, fault)
				}
			}
		}
		for gi := 0; gi < 8; gi++ {
			wg.Add(1)
			go func(gi int) {
				defer wg.Done()
				rg := rand.New(rand.NewPCG(seed, uint64(gi)+500))
				rootAllow() // every reader starts with the router-wide answer: the first requests after the build phase overlap
				for !stop.Load() {
					id, page := strconv.Itoa(rg.IntN(1000)), strconv.Itoa(rg.IntN(1000))
					if rg.IntN(16) == 0 {
						rootAllow()
					}
					switch rg.IntN(4) {
					case 0:
						res, fault := serveOnce(frozen, "GET", "/u/"+id+"/p/"+page)
						if fault != nil || res == nil || res.hid != 1 || res.params["id"] != id || res.params["page"] != page || len(res.params) != 2 {
							rep.badf("frozen: /u/%s/p/%s answered %+v %v", id, page, res, fault)
						}
					case 1:
						res, fault := serveOnce(frozen, "POST", "/u/"+id)
						if fault != nil || res == nil || res.hid != 2 || res.params["id"] != id || len(res.params) != 1 {
							rep.badf("frozen: /u/%s answered %+v %v", id, res, fault)
						}
					case 2:
						res, fault := serveOnce(frozen, "DELETE", "/u/"+id)
						if fault != nil || res == nil || res.base != "notAllowed" || res.allow != "GET, HEAD, OPTIONS, POST" {
							rep.badf("frozen: 405 answered %+v %v", res, fault)
						}
					case 3:
						res, fault := serveOnce(frozen, "GET", "/lit/"+string(rune('a'+rg.IntN(8))))
						if fault != nil || res == nil || (res.base != "notFound" && len(res.params) != 0) {
							rep.badf("frozen: literal answered %+v %v", res, fault)
						}
					}
					nOps.Add(1)
				}
			}(gi)
		}
	}
	time.Sleep(time.Duration(seconds) * time.Second)
	stop.Store(true)
	wg.Wait()
	st, _ := json.Marshal(map[string]int64{"ops": nOps.Load(), "bad": int64(rep.bad), "goroutines": 22})
	fmt.Printf("STATS %s\n", st)
	if rep.bad > 0 {
		os.Exit(1)
	}
}

// raceC11: the CORS decision is a function of the configuration and of THIS request. Several goroutines send requests with a
// listed and with unlisted origins through one router at the same time: no response to an unlisted origin may carry an
// Access-Control-Allow-Origin, every response to the listed one carries exactly it (whatever the router remembers about
// earlier requests — a one-entry memo of the last verdict, say — must not leak between requests that overlap).
func raceC11(seed uint64, seconds int) {
	rep := &reporter{}
	listed := "https://app.example.com"
	r := mux.NewRouter("cors", raceCall, &H{base: "notFound"}, notAllowedBuilder, optionsBuilder,
		mux.WithCORS([]string{listed, "https://b.example.com"}, []string{"Content-Type"}, nil, 60, true))
	r.Handle("/a", &H{base: "user:1", hid: 1}, nil, "GET", "POST")
	var stop atomic.Bool
	var wg sync.WaitGroup
	var n atomic.Int64
	for k := 0; k < 6; k++ {
		wg.Add(1)
		go func(k int) {
			defer wg.Done()
			rg := rand.New(rand.NewPCG(seed, uint64(k)+300))
			for !stop.Load() {
				origin := listed
				if rg.IntN(2) == 0 {
					origin = []string{"https://evil.example.net", "https://app.example.com.evil.io", "null"}[rg.IntN(3)]
				}
				w := &resultWriter{hdr: http.Header{}}
				req, _ := http.NewRequest([]string{"GET", "OPTIONS"}[rg.IntN(2)], "http://x/a", nil)
				req.Header.Set("Origin", origin)
				if req.Method == "OPTIONS" {
					req.Header.Set("Access-Control-Request-Method", "POST")
					switch rg.IntN(3) {
					case 0:
						req.Header.Set("Access-Control-Request-Headers", "content-type")
					case 1:
						req.Header.Set("Access-Control-Request-Headers", "content-type, accept-language, x-requested-with, x-evil-"+strings.Repeat("z", rg.IntN(40)))
					}
				}
				func() {
					defer func() {
						if v := recover(); v != nil {
							rep.badf("cors: runtime fault %v", v)
						}
					}()
					r.ServeHTTP(w, req)
				}()
				got := w.hdr.Get("Access-Control-Allow-Origin")
				if acrh := req.Header.Get("Access-Control-Request-Headers"); acrh != "" && origin == listed {
					// the verdict on the requested headers is a function of THIS request's list
					allowedList := !strings.Contains(acrh, "x-evil")
					if allowedList && (got != listed || w.hdr.Get("Access-Control-Allow-Headers") == "") {
						rep.badf("cors: preflight asking for the configured header %q was refused: %v", acrh, w.hdr)
					}
					if !allowedList && got != "" {
						rep.badf("cors: preflight asking for %q was granted: %v", acrh, w.hdr)
					}
					n.Add(1)
					continue
				}
				if origin == listed && got != listed {
					rep.badf("cors: listed origin %s answered with Access-Control-Allow-Origin %q", origin, got)
				}
				if origin != listed && (got != "" || w.hdr.Get("Access-Control-Allow-Credentials") != "") {
					rep.badf("cors: unlisted origin %s was granted: ACAO=%q ACAC=%q", origin, got, w.hdr.Get("Access-Control-Allow-Credentials"))
				}
				n.Add(1)
			}
		}(k)
	}
	time.Sleep(time.Duration(seconds) * time.Second)
	stop.Store(true)
	wg.Wait()
	st, _ := json.Marshal(map[string]int64{"requests": n.Load(), "bad": int64(rep.bad)})
	fmt.Printf("STATS %s\n", st)
	if rep.bad > 0 {
		os.Exit(1)
	}
}

type lockedWriter struct {
	mu sync.Mutex
	n  int
}

func (l *lockedWriter) Write(b []byte) (int, error) { l.mu.Lock(); l.n += len(b); l.mu.Unlock(); return len(b), nil }

// raceC16: panics recovered at the same time. Handlers of one router (bundled write/status recovery) panic concurrently:
// no panic escapes ServeHTTP, every response is the recovery answer. What the recovery option keeps between calls (a
// buffer, say) is shared by all requests of the router.
func raceC16(seed uint64, seconds int) {
	rep := &reporter{}
	out := &lockedWriter{}
	var stop atomic.Bool
	var wg sync.WaitGroup
	var n atomic.Int64
	for _, opt := range []mux.Option{mux.WithWriteRecovery(500, out), mux.WithStatusRecovery(503)} {
		r := mux.NewRouter("rec", func(w http.ResponseWriter, req *http.Request, route types.Route, h *H) {
			if h.hid == 9 {
				panic("boom " + req.URL.RawQuery + strings.Repeat("x", len(req.URL.RawQuery)*7%113))
			}
			w.WriteHeader(204)
		}, &H{base: "notFound"}, notAllowedBuilder, optionsBuilder, opt)
		r.Handle("/boom", &H{base: "user:9", hid: 9}, nil, "GET")
		r.Handle("/ok", &H{base: "user:1", hid: 1}, nil, "GET")
		for k := 0; k < 4; k++ {
			wg.Add(1)
			go func(k int) {
				defer wg.Done()
				for i := 0; !stop.Load(); i++ {
					w := &resultWriter{hdr: http.Header{}}
					req, _ := http.NewRequest("GET", "http://x/boom?"+strconv.Itoa(k*1000003+i), nil)
					func() {
						defer func() {
							if v := recover(); v != nil {
								rep.badf("recovery: a panic escaped ServeHTTP although recovery is configured: %v", v)
							}
						}()
						r.ServeHTTP(w, req)
					}()
					if w.status != 500 && w.status != 503 {
						rep.badf("recovery: status %d for a panicking handler", w.status)
					}
					n.Add(1)
				}
			}(k)
		}
	}
	time.Sleep(time.Duration(seconds) * time.Second)
	stop.Store(true)
	wg.Wait()
	st, _ := json.Marshal(map[string]int64{"requests": n.Load(), "bad": int64(rep.bad)})
	fmt.Printf("STATS %s\n", st)
	if rep.bad > 0 {
		os.Exit(1)
	}
}

// raceC20: pooled contexts under concurrency — every goroutine takes a context, fills it, reads it back and returns it; what
// it reads is what it wrote (a context is owned by one request from NewContext to Destroy; nothing touches it after Put).
func raceC20(seed uint64, seconds int) {
	rep := &reporter{}
	var stop atomic.Bool
	var wg sync.WaitGroup
	var n atomic.Int64
	for k := 0; k < 8; k++ {
		wg.Add(1)
		go func(k int) {
			defer wg.Done()
			for i := 0; !stop.Load(); i++ {
				c := types.NewContext()
				if c.Count() != 0 {
					rep.badf("params: a context from NewContext holds %d parameters", c.Count())
				}
				key, val := "k"+strconv.Itoa(k), strconv.Itoa(k*1000003+i)
				c.Set(key, val)
				c.Set("common", val)
				c.Path = "/p/" + val
				if got, ok := c.Get(key); !ok || got != val || c.Count() != 2 || c.MustString("common", "") != val {
					rep.badf("params: wrote %s=%s, read %q (found %v), count %d", key, val, got, ok, c.Count())
				}
				if i%64 == 0 {
					for j := 0; j < 31; j++ { // more than the pool keeps
						c.Set("x"+strconv.Itoa(j), val)
					}
				}
				c.Destroy()
				n.Add(1)
			}
		}(k)
	}
	time.Sleep(time.Duration(seconds) * time.Second)
	stop.Store(true)
	wg.Wait()
	st, _ := json.Marshal(map[string]int64{"contexts": n.Load(), "bad": int64(rep.bad)})
	fmt.Printf("STATS %s\n", st)
	if rep.bad > 0 {
		os.Exit(1)
	}
}

func runRace(args []string) {
	if len(args) < 3 {
		fmt.Fprintln(os.Stderr, "usage: race C06|C07 <seed> <seconds>")
		os.Exit(2)
	}
	seed, _ := strconv.ParseUint(args[1], 10, 64)
	secs, _ := strconv.Atoi(args[2])
	switch args[0] {
	case "C06":
		raceC06(seed, secs)
	case "C07":
		raceC07(seed, secs)
	case "C11":
		raceC11(seed, secs)
	case "C16":
		raceC16(seed, secs)
	case "C20":
		raceC20(seed, secs)
	default:
		os.Exit(2)
	}
}
