package main

// exec: run an operation file against the real github.com/issue9/mux/v9 (in-process, /repo's
// working tree through the `replace` directive) and print one canonical observation per op.

import (
	"bufio"
	"bytes"
	"fmt"
	"io"
	"log"
	"log/slog"
	"regexp"
	"net/http"
	"net/url"
	"os"
	"runtime"
	"sort"
	"strconv"
	"strings"

	"github.com/issue9/mux/v9"
	"github.com/issue9/mux/v9/types"
)

// H is the handler type T of the routers under test: a pure description.
type H struct {
	base  string // user:<id> | options | notAllowed | notFound | trace | groupNotFound
	hid   int
	node  types.Node // for options / notAllowed
	wraps []wrap     // innermost first
}

type wrap struct {
	mw                      int
	method, pattern, router string
}

type panicVal struct{ id int }

func (p panicVal) String() string { return "v" + strconv.Itoa(p.id) }

type act struct {
	kind string // s a d w b
	k, v string
	n    int
}

// rec is the recorder model of http.ResponseWriter.
type rec struct {
	hdr   http.Header
	code  int
	wrote bool
	snap  http.Header
	body  int
	text  []byte
}

// failingWriter: a ResponseWriter whose client is gone
type failingWriter struct{ h http.Header }

func (w failingWriter) Header() http.Header         { return w.h }
func (w failingWriter) WriteHeader(int)             {}
func (w failingWriter) Write(b []byte) (int, error) { return 0, io.ErrClosedPipe }

func newRec() *rec                   { return &rec{hdr: http.Header{}} }
func (r *rec) Header() http.Header   { return r.hdr }
func (r *rec) WriteHeader(code int) {
	if r.wrote {
		return
	}
	if code >= 100 && code <= 199 && code != 101 {
		return // informational: net/http sends it at once and keeps waiting for the final status
	}
	r.wrote = true
	r.code = code
	r.snap = r.hdr.Clone()
}
func (r *rec) Write(b []byte) (int, error) {
	r.WriteHeader(200)
	r.body += len(b)
	r.text = append(r.text, b...)
	return len(b), nil
}

func fmtRec(r *rec) string {
	code, snap := "-", "-"
	if r.wrote {
		code = strconv.Itoa(r.code)
		snap = encHdr(r.snap)
	}
	return fmt.Sprintf("status=%s body=%d live=%s snap=%s", code, r.body, encHdr(r.hdr), snap)
}

type facadeSt struct {
	isResource bool
	prefix     *mux.Prefix[*H]
	resource   *mux.Resource[*H]
}

type obs struct {
	raised    bool // a user-supplied function of the harness raised a panic during this request
	called    bool
	callLine  string
	recovered bool
	recCount  int // how often the recovery function was called for this request ("exactly once")
	recVal    any
	extra     string // what a nested request issued from inside this request's handler observed (op nserve)
}

// nestedReq: the request the next invoked handler issues on the same router before it goes on (op nserve): two requests
// are alive at once without a second goroutine, each must see exactly its own parameters (contexts are pooled).
type nestedReq struct {
	h   http.Handler
	req *http.Request
}

type executor struct {
	routers map[int]*mux.Router[*H]
	matcherCache map[string]mux.Matcher // stand-alone matchers of `match` ops, by expression
	traceCalls   int
	facades map[int]*facadeSt
	facadeRouter map[int]*mux.Router[*H]
	hosts   map[int]*mux.Hosts
	groups  map[int]*mux.Group[*H]
	ctxs    map[int]*types.Context
	scripts map[int][]act
	mwScripts map[int][]act // middlewares that write response headers at request time (op mw-script)
	pHandlers, pMws, pBases map[int]int
	cur     *obs
	curRec  *rec
	nested  *nestedReq
	// sinks of the bundled recovery options (WithWriteRecovery / WithLogRecovery / WithSLogRecovery)
	recW, recL, recG bytes.Buffer
}

func newExecutor() *executor {
	return &executor{
		routers: map[int]*mux.Router[*H]{}, facades: map[int]*facadeSt{}, facadeRouter: map[int]*mux.Router[*H]{}, hosts: map[int]*mux.Hosts{},
		groups: map[int]*mux.Group[*H]{}, ctxs: map[int]*types.Context{}, scripts: map[int][]act{}, mwScripts: map[int][]act{},
		pHandlers: map[int]int{}, pMws: map[int]int{}, pBases: map[int]int{},
	}
}

var baseCode = map[string]int{"options": 1, "notAllowed": 2, "notFound": 3, "trace": 4, "groupNotFound": 7}

func icptFunc(id int) mux.InterceptorFunc {
	switch id {
	case 3:
		return func(s string) bool { return len(s) > 0 && s[0] == 'a' }
	case 4:
		return func(string) bool { return true }
	case 5:
		return func(string) bool { return false }
	case 6:
		return func(s string) bool { return len(s)%2 == 0 }
	}
	return func(string) bool { return false }
}

func icptOption(rule string, id int) mux.Option {
	switch id {
	case 0:
		return mux.WithAnyInterceptor(rule)
	case 1:
		return mux.WithDigitInterceptor(rule)
	case 2:
		return mux.WithWordInterceptor(rule)
	}
	return mux.WithInterceptor(icptFunc(id), rule)
}

func icptRules(tok string) map[string]mux.InterceptorFunc {
	m := map[string]mux.InterceptorFunc{}
	for _, e := range decM(tok) {
		id, _ := strconv.Atoi(e.v)
		switch id {
		case 0:
			m[e.k] = icptAny
		case 1:
			m[e.k] = icptDigit
		case 2:
			m[e.k] = icptWord
		default:
			m[e.k] = icptFunc(id)
		}
	}
	return m
}

// mwCalls counts every invocation of a middleware factory (op `mw-calls`): "exactly once per wrapped handler"
var mwCalls int

func mwOf(id int) types.Middleware[*H] {
	return types.MiddlewareFunc[*H](func(next *H, method, pattern, router string) *H {
		mwCalls++
		if next == nil {
			next = &H{base: "nil"}
		}
		n := *next
		n.wraps = append(append([]wrap(nil), next.wraps...), wrap{id, method, pattern, router})
		return &n
	})
}

// mwsOf builds the middleware list the way callers that collect middlewares with append do: the slice
// has spare capacity (an implementation that appends to its argument in place would alias it), and one
// shared backing array is reused for consecutive calls with the same ids.
var mwCache = map[string][]types.Middleware[*H]{}

func mwsOf(ids []int) []types.Middleware[*H] {
	key := fmt.Sprint(ids)
	if s, ok := mwCache[key]; ok && len(ids) > 0 {
		return s
	}
	// a list that is a proper prefix of one handed out before is a re-slice of THAT list (the caller writes ms[:k]...):
	// appending to it in place would overwrite the caller's element k
	best := ""
	for k, s := range mwCache {
		if len(ids) > 0 && len(s) > len(ids) && strings.HasPrefix(k, strings.TrimSuffix(key, "]")+" ") && (best == "" || k < best) {
			best = k
		}
	}
	if best != "" {
		return mwCache[best][:len(ids)]
	}
	out := make([]types.Middleware[*H], len(ids), len(ids)+8)
	for i, id := range ids {
		out[i] = mwOf(id)
	}
	mwCache[key] = out
	return out
}

func optionsBuilder(n types.Node) *H    { return &H{base: "options", node: n} }
func notAllowedBuilder(n types.Node) *H { return &H{base: "notAllowed", node: n} }

func fmtWraps(ws []wrap) string {
	if len(ws) == 0 {
		return "%-"
	}
	out := make([]string, len(ws))
	for i, w := range ws {
		out[i] = fmt.Sprintf("%d:%s:%s:%s", w.mw, encB(w.method), encB(w.pattern), encB(w.router))
	}
	return strings.Join(out, "|")
}

// call is the CallFunc of every router/group under test.
func (x *executor) call(w http.ResponseWriter, r *http.Request, route types.Route, h *H) {
	o := x.cur
	o.called = true
	base := "nil"
	var wraps []wrap
	if h != nil {
		base, wraps = h.base, h.wraps
	}
	node := "node=- methods=- allow=-"
	if n := route.Node(); n != nil {
		node = fmt.Sprintf("node=%s methods=%s allow=%s", encB(n.Pattern()), encMethods(n.Methods()), encB(n.AllowHeader()))
	}
	params := map[string]string{}
	route.Params().Range(func(k, v string) { params[k] = v })
	head := w != http.ResponseWriter(x.curRec)
	o.callLine = fmt.Sprintf("call base=%s wraps=%s %s params=%s router=%s head=%s path=%s hdr=%s",
		base, fmtWraps(wraps), node, encMap(params), encB(route.RouterName()), b2s(head), encB(r.URL.Path), encHdr(w.Header()))

	if n := x.nested; n != nil {
		x.nested = nil
		saveCur, saveRec := x.cur, x.curRec
		inner := x.serve(n.h, n.req)
		x.cur, x.curRec = saveCur, saveRec
		x.recW.Reset()
		x.recL.Reset()
		x.recG.Reset()
		after := map[string]string{}
		route.Params().Range(func(k, v string) { after[k] = v })
		o.extra = " nested={" + inner + "} after=" + encMap(after)
	}
	// request time: middlewares outermost first, then the handler itself
	for i := len(wraps) - 1; i >= 0; i-- {
		if acts, ok := x.mwScripts[wraps[i].mw]; ok {
			runScript(w, acts)
		}
		if v, ok := x.pMws[wraps[i].mw]; ok {
			o.raised = true
			panic(panicValue(v))
		}
	}
	if h == nil {
		var nilHandler http.Handler
		nilHandler.ServeHTTP(w, r) // what calling a nil T does in examples/std
		return
	}
	if strings.HasPrefix(base, "user:") {
		if v, ok := x.pHandlers[h.hid]; ok {
			o.raised = true
			panic(panicValue(v))
		}
		runScript(w, x.scripts[h.hid])
		return
	}
	if v, ok := x.pBases[baseCode[base]]; ok {
		o.raised = true
		panic(panicValue(v))
	}
	switch base {
	case "options":
		w.Header().Set("Allow", h.node.AllowHeader())
	case "notAllowed":
		w.Header().Set("Allow", h.node.AllowHeader())
		w.WriteHeader(405)
	case "notFound", "groupNotFound":
		w.WriteHeader(404)
	case "trace":
		w.Header().Set("X-Trace", "1")
		w.WriteHeader(200)
	default:
		var nilHandler http.Handler
		nilHandler.ServeHTTP(w, r)
	}
}

func runScript(w http.ResponseWriter, acts []act) {
	for _, a := range acts {
		switch a.kind {
		case "s":
			w.Header().Set(a.k, a.v)
		case "a":
			w.Header().Add(a.k, a.v)
		case "d":
			w.Header().Del(a.k)
		case "w":
			w.WriteHeader(a.n)
		case "b":
			w.Write(make([]byte, a.n))
		}
	}
}

func (x *executor) recoverFunc(w http.ResponseWriter, msg any) {
	x.cur.recCount++
	x.cur.recovered = true
	x.cur.recVal = msg
	w.WriteHeader(500)
}

// panicValue: most ids are opaque values of the harness; a few stand for values with a meaning elsewhere in net/http.
func panicValue(v int) any {
	switch v {
	case 99:
		return http.ErrAbortHandler
	case 98:
		return fmt.Errorf("wrapped: %w", http.ErrAbortHandler)
	case 97:
		return "v97" // a plain string
	}
	return panicVal{v}
}

func fmtPanicVal(v any) string {
	if v == http.ErrAbortHandler {
		return "v99"
	}
	if e, ok := v.(error); ok && strings.HasPrefix(e.Error(), "wrapped: ") {
		return "v98"
	}
	if s, ok := v.(string); ok && s == "v97" {
		return "v97"
	}
	switch vv := v.(type) {
	case panicVal:
		return fmt.Sprintf("v%d", vv.id)
	case runtime.Error:
		return "fault"
	}
	return "other"
}

// classify maps a panic/error value of mux to the small enum of the protocol.
func classify(v any) string {
	if _, ok := v.(runtime.Error); ok {
		return "fault"
	}
	err, ok := v.(error)
	if !ok {
		return "fault" // not an error value
	}
	msg := err.Error()
	table := []struct{ sub, class string }{
		{"参数 str 不能为空", "empty"},
		{"两个命名参数不能连续出现", "adjacent"},
		{"无效的语法", "syntax"},
		{"存在相同名称的路由参数", "dup-name"},
		{"单个节点的长度不能超过", "too-long"},
		{"无法手动添加", "reserved-method"},
		{"不被支持", "unknown-method"},
		{"已经存在", "dup-method"},
		{"存在歧义", "ambiguous"},
		{"error parsing regexp", "regexp"},
		{"未找到参数", "missing-param"},
		{"并不是一条有效的注册路由项", "not-a-route"},
		{"格式不匹配", "bad-value"},
	}
	for _, e := range table {
		if strings.Contains(msg, e.sub) {
			return "reject:" + e.class
		}
	}
	return "reject:other"
}

// wrapperFor: which shorthand (Get/Post/Delete/Put/Patch/Any) stands for Handle with this method list; "" = none.
// Odd handler ids use the shorthand, even ones the general call, so both are exercised on the same inputs.
func wrapperFor(hid int, methods []string) string {
	if hid%2 == 0 {
		return ""
	}
	if len(methods) == 0 {
		return "ANY"
	}
	if len(methods) == 1 {
		switch methods[0] {
		case "GET", "POST", "DELETE", "PUT", "PATCH":
			return methods[0]
		}
	}
	return ""
}

func protect(f func() string) (out string) {
	defer func() {
		if v := recover(); v != nil {
			out = classify(v)
		}
	}()
	return f()
}

func (x *executor) routerOpts(trace, lock, recover, domain, icpt, corsFlag, origins, allowH, exposed, maxAge, cred string) []mux.Option {
	var o []mux.Option
	if trace == "1" {
		o = append(o, mux.WithTrace(&H{base: "trace"}))
	}
	if lock == "1" {
		o = append(o, mux.WithLock(true))
	}
	switch {
	case recover == "1":
		o = append(o, mux.WithRecovery(x.recoverFunc))
	case len(recover) > 1: // a bundled option: s<status> | w<status> | l<status> | g<status>
		code, _ := strconv.Atoi(recover[1:])
		switch recover[0] {
		case 's':
			o = append(o, mux.WithStatusRecovery(code))
		case 'w':
			o = append(o, mux.WithWriteRecovery(code, &x.recW))
		case 'l':
			o = append(o, mux.WithLogRecovery(code, log.New(&x.recL, "REC|", 0)))
		case 'g':
			o = append(o, mux.WithSLogRecovery(code, slog.New(slog.NewTextHandler(&x.recG, nil))))
		}
	}
	if d := decB(domain); d != "" {
		o = append(o, mux.WithURLDomain(d))
	}
	for _, e := range decM(icpt) {
		id, _ := strconv.Atoi(e.v)
		o = append(o, icptOption(e.k, id))
	}
	if corsFlag == "1" {
		ma, _ := strconv.Atoi(maxAge)
		or, ah, ex := decL(origins), decL(allowH), decL(exposed)
		switch {
		case len(or) == 0 && len(ah) == 0 && len(ex) == 0 && ma == 0 && cred != "1":
			o = append(o, mux.WithDenyCORS())
		case len(or) == 1 && or[0] == "*" && len(ah) == 1 && ah[0] == "*" && len(ex) == 0 && cred != "1":
			o = append(o, mux.WithAllowedCORS(ma))
		default:
			o = append(o, mux.WithCORS(or, ah, ex, ma, cred == "1"))
		}
	}
	return o
}

func fmtRoutes(m map[string][]string) string {
	keys := make([]string, 0, len(m))
	for k := range m {
		keys = append(keys, k)
	}
	sort.Strings(keys)
	out := make([]string, len(keys))
	for i, k := range keys {
		out[i] = encB(k) + "=" + encMethods(m[k])
	}
	return "routes " + strings.Join(out, ",")
}

func mkRequest(method, path, host, hdrs string) *http.Request {
	h := http.Header{}
	for _, e := range decM(hdrs) {
		h[e.k] = append(h[e.k], e.v)
	}
	return &http.Request{Method: decB(method), URL: &url.URL{Path: decB(path)}, Host: decB(host), Header: h,
		Proto: "HTTP/1.1", ProtoMajor: 1, ProtoMinor: 1}
}

func (x *executor) serve(h http.Handler, req *http.Request) (out string) {
	x.cur = &obs{}
	x.curRec = newRec()
	o, r := x.cur, x.curRec
	prefix := func() string {
		if o.called {
			return o.callLine + " => "
		}
		return "nocall => "
	}
	defer func() { out += o.extra }()
	defer func() {
		if v := recover(); v != nil {
			out = prefix() + "panicked:" + fmtPanicVal(v)
		}
	}()
	x.recW.Reset()
	x.recL.Reset()
	x.recG.Reset()
	h.ServeHTTP(r, req)
	if o.recovered {
		times := ""
		if o.recCount != 1 {
			times = "x" + strconv.Itoa(o.recCount)
		}
		return prefix() + "recovered:" + fmtPanicVal(o.recVal) + times + " " + fmtRec(r)
	}
	// bundled recovery options: the value is what they logged; WithStatusRecovery logs nothing ("?")
	if val, times, ok := x.loggedPanic(); ok {
		if times != 1 {
			val += "x" + strconv.Itoa(times)
		}
		return prefix() + "recovered:" + val + " " + fmtRec(r)
	}
	if o.raised {
		return prefix() + "recovered:? " + fmtRec(r)
	}
	return prefix() + "normal " + fmtRec(r)
}

var loggedVal = regexp.MustCompile(`wrapped: net/http: abort Handler|net/http: abort Handler|v[0-9]+|runtime error`)

// loggedPanic reads the sinks of the bundled recovery options: the value logged first and how many records there are.
func (x *executor) loggedPanic() (val string, times int, ok bool) {
	var text string
	switch {
	case x.recW.Len() > 0:
		text = x.recW.String()
		first := strings.SplitN(text, "\n", 2)[0]
		times = strings.Count("\n"+text, "\n"+first+"\n")
	case x.recL.Len() > 0:
		text = x.recL.String()
		times = strings.Count(text, "REC|")
	case x.recG.Len() > 0:
		text = x.recG.String()
		times = strings.Count(text, "level=ERROR")
	default:
		return "", 0, false
	}
	val = loggedVal.FindString(text)
	switch val {
	case "runtime error":
		val = "fault"
	case "net/http: abort Handler":
		val = "v99"
	case "wrapped: net/http: abort Handler":
		val = "v98"
	}
	if val == "" {
		val = "unknown"
	}
	return val, times, true
}

func decActs(tok string) []act {
	if tok == "%-" {
		return nil
	}
	var out []act
	for _, a := range strings.Split(tok, ";") {
		p := strings.SplitN(a, ":", 2)
		if len(p) != 2 {
			continue
		}
		switch p[0] {
		case "s", "a":
			e := strings.Split(p[1], "=")
			if len(e) == 2 {
				out = append(out, act{kind: p[0], k: decB(e[0]), v: decB(e[1])})
			}
		case "d":
			out = append(out, act{kind: "d", k: decB(p[1])})
		case "w", "b":
			n, _ := strconv.Atoi(p[1])
			out = append(out, act{kind: p[0], n: n})
		}
	}
	return out
}

func splitTop(s string, sep byte) []string {
	var out []string
	depth, start := 0, 0
	for i := 0; i < len(s); i++ {
		switch s[i] {
		case '(':
			depth++
		case ')':
			depth--
		case sep:
			if depth == 0 {
				out = append(out, s[start:i])
				start = i + 1
			}
		}
	}
	return append(out, s[start:])
}

func decVersions(tok string) []string {
	if tok == "%-" {
		return nil
	}
	parts := strings.Split(tok, "+")
	out := make([]string, len(parts))
	for i, p := range parts {
		out[i] = decB(p)
	}
	return out
}

// parseMatcher builds the real matcher; constructors may panic.
func (x *executor) parseMatcher(s string) mux.Matcher {
	switch {
	case s == "any":
		return nil
	case strings.HasPrefix(s, "hosts:"):
		id, _ := strconv.Atoi(s[6:])
		return x.hosts[id]
	case strings.HasPrefix(s, "pv:"):
		p := strings.Split(s[3:], ":")
		return mux.NewPathVersion(decB(p[0]), decVersions(p[1])...)
	case strings.HasPrefix(s, "hv:"):
		p := strings.Split(s[3:], ":")
		return mux.NewHeaderVersion(decB(p[0]), decB(p[1]), func(error) {}, decVersions(p[2])...)
	case strings.HasPrefix(s, "and("), strings.HasPrefix(s, "or("):
		open := strings.IndexByte(s, '(')
		inner := s[open+1 : len(s)-1]
		var ms []mux.Matcher
		if inner != "" {
			for _, e := range splitTop(inner, ';') {
				m := x.parseMatcher(e)
				if m == nil {
					m = mux.MatcherFunc(func(*http.Request, *types.Context) bool { return true })
				}
				ms = append(ms, m)
			}
		}
		if len(ms)%2 == 1 { // odd arity: the ...Func variants (= the same combinators over MatcherFunc values)
			fs := make([]func(*http.Request, *types.Context) bool, len(ms))
			for i, m := range ms {
				fs[i] = m.Match
			}
			if s[0] == 'a' {
				return mux.AndMatcherFunc(fs...)
			}
			return mux.OrMatcherFunc(fs...)
		}
		if s[0] == 'a' {
			return mux.AndMatcher(ms...)
		}
		return mux.OrMatcher(ms...)
	}
	return nil
}

func fmtURL(u string, err error) string {
	if err != nil {
		return classify(err)
	}
	return "url " + encB(u)
}

// step executes one operation line. Whatever panics inside an operation that has no recover of its own is answered as the
// observation "fault" for that line: the run goes on, the judges and the comparison see the line.
func (x *executor) step(line string) (out string) {
	defer func() {
		if v := recover(); v != nil {
			out = "fault"
		}
	}()
	return x.stepInner(line)
}

func (x *executor) stepInner(line string) string {
	t := strings.Fields(line)
	if len(t) == 0 {
		return ""
	}
	atoi := func(s string) int { v, _ := strconv.Atoi(s); return v }
	switch {
	case t[0] == "#":
		return "#"
	case t[0] == "router" && len(t) == 14:
		id, name := atoi(t[1]), decB(t[2])
		return protectRouter(name, func() string {
			r := mux.NewRouter(name, x.call, &H{base: "notFound"}, notAllowedBuilder, optionsBuilder,
				x.routerOpts(t[3], t[4], t[5], t[6], t[7], t[8], t[9], t[10], t[11], t[12], t[13])...)
			x.routers[id] = r
			return "ok"
		})
	case t[0] == "handle" && len(t) == 6:
		r := x.routers[atoi(t[1])]
		if r == nil {
			return "bad-op no-router"
		}
		hid := atoi(t[3])
		return protect(func() string {
			pat, h, ms, methods := decB(t[2]), &H{base: "user:" + t[3], hid: hid}, mwsOf(decNatList(t[4])), decL(t[5])
			// every other registration goes through the shorthand methods when one applies (Get/Post/.../Any = Handle)
			switch w := wrapperFor(hid, methods); w {
			case "GET":
				r.Get(pat, h, ms...)
			case "POST":
				r.Post(pat, h, ms...)
			case "DELETE":
				r.Delete(pat, h, ms...)
			case "PUT":
				r.Put(pat, h, ms...)
			case "PATCH":
				r.Patch(pat, h, ms...)
			case "ANY":
				r.Any(pat, h, ms...)
			default:
				r.Handle(pat, h, ms, methods...)
			}
			return "ok"
		})
	case t[0] == "remove" && len(t) == 4:
		r := x.routers[atoi(t[1])]
		if r == nil {
			return "bad-op no-router"
		}
		return protect(func() string {
			// the method list is the CALLER's slice (spread with ...): it is handed over with spare capacity and must read
			// the same after the call
			ms := decL(t[3])
			arg := append(make([]string, 0, len(ms)+3), ms...)
			r.Remove(decB(t[2]), arg...)
			for i := range ms {
				if arg[i] != ms[i] {
					return "ok caller-method-list-modified:" + encL(arg)
				}
			}
			return "ok"
		})
	case t[0] == "clean" && len(t) == 3:
		r := x.routers[atoi(t[1])]
		if r == nil {
			return "bad-op no-router"
		}
		return protect(func() string {
			if p := decB(t[2]); p == "" {
				r.Clean()
			} else {
				r.Prefix(p).Clean()
			}
			return "ok"
		})
	case t[0] == "use" && len(t) == 3:
		r := x.routers[atoi(t[1])]
		if r == nil {
			return "bad-op no-router"
		}
		return protect(func() string {
			ms := mwsOf(decNatList(t[2]))
			if atoi(t[1])%2 == 0 && len(ms) > 0 { // as for façades: a private slice with spare capacity, overwritten by its owner after the call
				ms = append(make([]types.Middleware[*H], 0, len(ms)+2), ms...)
				defer func() {
					for i := range ms {
						ms[i] = mwOf(99)
					}
				}()
			}
			r.Use(ms...)
			return "ok"
		})
	case t[0] == "routes" && len(t) == 2:
		r := x.routers[atoi(t[1])]
		if r == nil {
			return "bad-op no-router"
		}
		return protect(func() string { return fmtRoutes(r.Routes()) })
	case t[0] == "serve" && len(t) == 7:
		r := x.routers[atoi(t[1])]
		if r == nil {
			return "bad-op no-router"
		}
		return x.serve(r, mkRequest(t[2], t[3], t[4], t[5]))
	case t[0] == "nserve" && len(t) == 9:
		r := x.routers[atoi(t[1])]
		if r == nil {
			return "bad-op no-router"
		}
		x.nested = &nestedReq{h: r, req: mkRequest(t[7], t[8], "%_", "%-")}
		defer func() { x.nested = nil }()
		return x.serve(r, mkRequest(t[2], t[3], t[4], t[5]))
	case t[0] == "url" && len(t) == 5:
		r := x.routers[atoi(t[1])]
		if r == nil {
			return "bad-op no-router"
		}
		return protect(func() string { return fmtURL(r.URL(t[2] == "1", decB(t[3]), decMap(t[4]))) })
	case t[0] == "murl" && len(t) == 3:
		return protect(func() string { return fmtURL(mux.URL(decB(t[1]), decMap(t[2]))) })
	case t[0] == "syntax" && len(t) == 2:
		return protect(func() string {
			if err := mux.CheckSyntax(decB(t[1])); err != nil {
				return classify(err)
			}
			return "ok"
		})
	case t[0] == "facade" && len(t) == 7:
		fid, rid := atoi(t[1]), atoi(t[2])
		r := x.routers[rid]
		if r == nil {
			return "bad-op"
		}
		ms := mwsOf(decNatList(t[6]))
		scribble := fid%2 == 0 && len(ms) > 0
		if scribble { // a private copy of the list: the caller overwrites ITS slice after the call (see below)
			ms = append(make([]types.Middleware[*H], 0, len(ms)), ms...)
		}
		defer func() {
			if scribble { // the caller re-uses its slice for something else: the façade keeps what it was given at creation
				for i := range ms {
					ms[i] = mwOf(99)
				}
			}
		}()
		parent := x.facades[atoi(t[4])]
		if t[4] == "-" {
			parent = nil
		}
		fs := &facadeSt{isResource: t[3] == "resource"}
		switch {
		case parent != nil && parent.prefix != nil && fs.isResource:
			fs.resource = parent.prefix.Resource(decB(t[5]), ms...)
		case parent != nil && parent.prefix != nil:
			fs.prefix = parent.prefix.Prefix(decB(t[5]), ms...)
		case fs.isResource:
			fs.resource = r.Resource(decB(t[5]), ms...)
		default:
			fs.prefix = r.Prefix(decB(t[5]), ms...)
		}
		x.facades[fid] = fs
		x.facadeRouter[fid] = r
		return "ok"
	case t[0] == "fhandle" && len(t) == 6:
		fs := x.facades[atoi(t[1])]
		if fs == nil {
			return "bad-op"
		}
		hid := atoi(t[3])
		h := &H{base: "user:" + t[3], hid: hid}
		return protect(func() string {
			ms, methods := mwsOf(decNatList(t[4])), decL(t[5])
			w := wrapperFor(hid, methods)
			if fs.isResource {
				if fs.resource.Router() != x.facadeRouter[atoi(t[1])] {
					return "facade-router-mismatch"
				}
				switch w {
				case "GET":
					fs.resource.Get(h, ms...)
				case "POST":
					fs.resource.Post(h, ms...)
				case "DELETE":
					fs.resource.Delete(h, ms...)
				case "PUT":
					fs.resource.Put(h, ms...)
				case "PATCH":
					fs.resource.Patch(h, ms...)
				case "ANY":
					fs.resource.Any(h, ms...)
				default:
					fs.resource.Handle(h, ms, methods...)
				}
			} else {
				if fs.prefix.Router() != x.facadeRouter[atoi(t[1])] {
					return "facade-router-mismatch"
				}
				pat := decB(t[2])
				switch w {
				case "GET":
					fs.prefix.Get(pat, h, ms...)
				case "POST":
					fs.prefix.Post(pat, h, ms...)
				case "DELETE":
					fs.prefix.Delete(pat, h, ms...)
				case "PUT":
					fs.prefix.Put(pat, h, ms...)
				case "PATCH":
					fs.prefix.Patch(pat, h, ms...)
				case "ANY":
					fs.prefix.Any(pat, h, ms...)
				default:
					fs.prefix.Handle(pat, h, ms, methods...)
				}
			}
			return "ok"
		})
	case t[0] == "fremove" && len(t) == 4:
		fs := x.facades[atoi(t[1])]
		if fs == nil {
			return "bad-op"
		}
		return protect(func() string {
			if fs.isResource {
				fs.resource.Remove(decL(t[3])...)
			} else {
				fs.prefix.Remove(decB(t[2]), decL(t[3])...)
			}
			return "ok"
		})
	case t[0] == "fclean" && len(t) == 2:
		fs := x.facades[atoi(t[1])]
		if fs == nil {
			return "bad-op"
		}
		return protect(func() string {
			if fs.isResource {
				fs.resource.Clean()
			} else {
				fs.prefix.Clean()
			}
			return "ok"
		})
	case t[0] == "furl" && len(t) == 5:
		fs := x.facades[atoi(t[1])]
		if fs == nil {
			return "bad-op"
		}
		return protect(func() string {
			if fs.isResource {
				return fmtURL(fs.resource.URL(t[2] == "1", decMap(t[4])))
			}
			return fmtURL(fs.prefix.URL(t[2] == "1", decB(t[3]), decMap(t[4])))
		})
	case t[0] == "hosts" && len(t) == 3:
		// odd ids get a locked Hosts: the lock must be invisible to a single goroutine
		return protect(func() string { x.hosts[atoi(t[1])] = mux.NewHosts(atoi(t[1])%2 == 1, decL(t[2])...); return "ok" })
	case t[0] == "hosts-add" && len(t) == 3:
		h := x.hosts[atoi(t[1])]
		if h == nil {
			return "bad-op"
		}
		return protect(func() string { h.Add(decB(t[2])); return "ok" })
	case t[0] == "hosts-del" && len(t) == 3:
		h := x.hosts[atoi(t[1])]
		if h == nil {
			return "bad-op"
		}
		return protect(func() string { h.Delete(decB(t[2])); return "ok" })
	case t[0] == "hosts-icpt" && len(t) == 4:
		h := x.hosts[atoi(t[1])]
		if h == nil {
			return "bad-op"
		}
		return protectDup(func() string {
			id := atoi(t[3])
			switch id {
			case 0:
				h.RegisterInterceptor(icptAny, decB(t[2]))
			case 1:
				h.RegisterInterceptor(icptDigit, decB(t[2]))
			case 2:
				h.RegisterInterceptor(icptWord, decB(t[2]))
			default:
				h.RegisterInterceptor(icptFunc(id), decB(t[2]))
			}
			return "ok"
		})
	case t[0] == "hosts-match" && len(t) == 3:
		h := x.hosts[atoi(t[1])]
		if h == nil {
			return "bad-op"
		}
		return protect(func() string {
			ctx := types.NewContext()
			defer ctx.Destroy()
			ok := h.Match(&http.Request{Host: decB(t[2]), URL: &url.URL{}}, ctx)
			ps := map[string]string{}
			ctx.Range(func(k, v string) { ps[k] = v })
			return "match " + b2s(ok) + " " + encMap(ps)
		})
	case t[0] == "group" && len(t) == 12:
		return protectRouter("g", func() string {
			o := x.routerOpts(t[3], "0", t[2], t[4], t[5], t[6], t[7], t[8], t[9], t[10], t[11])
			x.groups[atoi(t[1])] = mux.NewGroup(x.call, &H{base: "groupNotFound"}, notAllowedBuilder, optionsBuilder, o...)
			return "ok"
		})
	case t[0] == "group-add" && len(t) == 4:
		g, r := x.groups[atoi(t[1])], x.routers[atoi(t[2])]
		if g == nil || r == nil {
			return "bad-op"
		}
		return protectGroup(func() string { g.Add(x.parseMatcher(t[3]), r); return "ok" })
	case t[0] == "group-new" && len(t) == 5:
		g := x.groups[atoi(t[1])]
		if g == nil {
			return "bad-op"
		}
		return protectGroup(func() string {
			x.routers[atoi(t[2])] = g.New(decB(t[3]), x.parseMatcher(t[4]))
			return "ok"
		})
	case t[0] == "group-new" && len(t) == 6: // Group.New with options of its own (interceptors) on top of the group's
		g := x.groups[atoi(t[1])]
		if g == nil {
			return "bad-op"
		}
		return protectGroup(func() string {
			var o []mux.Option
			for _, e := range decM(t[5]) {
				id, _ := strconv.Atoi(e.v)
				o = append(o, icptOption(e.k, id))
			}
			x.routers[atoi(t[2])] = g.New(decB(t[3]), x.parseMatcher(t[4]), o...)
			return "ok"
		})
	case t[0] == "group-use" && len(t) == 3:
		g := x.groups[atoi(t[1])]
		if g == nil {
			return "bad-op"
		}
		return protect(func() string { g.Use(mwsOf(decNatList(t[2]))...); return "ok" })
	case t[0] == "group-remove" && len(t) == 3:
		g := x.groups[atoi(t[1])]
		if g == nil {
			return "bad-op"
		}
		return protect(func() string { g.Remove(decB(t[2])); return "ok" })
	case t[0] == "group-names" && len(t) == 2:
		g := x.groups[atoi(t[1])]
		if g == nil {
			return "bad-op"
		}
		var names []string
		for _, r := range g.Routers() {
			names = append(names, r.Name())
		}
		return "names " + encL(names)
	case t[0] == "group-routes" && len(t) == 2:
		g := x.groups[atoi(t[1])]
		if g == nil {
			return "bad-op"
		}
		return protect(func() string {
			m := g.Routes()
			names := make([]string, 0, len(m))
			for k := range m {
				names = append(names, k)
			}
			sort.Strings(names)
			out := make([]string, len(names))
			for i, k := range names {
				out[i] = encB(k) + "{" + fmtRoutes(m[k]) + "}"
			}
			sort.Strings(out)
			return "groutes " + strings.Join(out, ";")
		})
	case t[0] == "group-router" && len(t) == 3:
		g := x.groups[atoi(t[1])]
		if g == nil {
			return "bad-op"
		}
		return protect(func() string {
			r := g.Router(decB(t[2]))
			if r == nil {
				return "grouter %!"
			}
			return "grouter " + encB(r.Name()) + " " + fmtRoutes(r.Routes())
		})
	case t[0] == "mw-calls" && len(t) == 1:
		return "mwcalls " + strconv.Itoa(mwCalls)
	case t[0] == "methods" && len(t) == 1:
		return "methods " + encL(mux.Methods()) + " any " + encL(mux.AnyMethods())
	case t[0] == "gserve" && len(t) == 7:
		g := x.groups[atoi(t[1])]
		if g == nil {
			return "bad-op"
		}
		return x.serve(g, mkRequest(t[2], t[3], t[4], t[5]))
	case t[0] == "mw-script" && len(t) == 3:
		if t[2] == "%-" {
			delete(x.mwScripts, atoi(t[1]))
		} else {
			x.mwScripts[atoi(t[1])] = decActs(t[2])
		}
		return "ok"
	case t[0] == "script" && len(t) == 3:
		x.scripts[atoi(t[1])] = decActs(t[2])
		return "ok"
	case t[0] == "panic-cfg" && len(t) == 4:
		x.pHandlers, x.pMws, x.pBases = decNatMap(t[1]), decNatMap(t[2]), decNatMap(t[3])
		return "ok"
	case t[0] == "pv-new" && len(t) == 2:
		return protectVersion(func() string {
			vs := decVersions(t[1])
			mux.NewPathVersion("", vs...) // normalises vs in place
			return "ok " + encL(vs)
		})
	case t[0] == "match" && len(t) == 8:
		return protectVersion(func() string {
			// a matcher is built once per expression and used for every later `match` of that expression (matchers are
			// long-lived objects: whatever they remember between requests must not change their answers); expressions that
			// refer to a Hosts object by id are rebuilt, the id may have been given to a new object
			m := x.matcherCache[t[1]]
			if m == nil || strings.Contains(t[1], "hosts:") {
				m = x.parseMatcher(t[1])
				if m == nil {
					m = mux.MatcherFunc(func(*http.Request, *types.Context) bool { return true })
				}
				if x.matcherCache == nil {
					x.matcherCache = map[string]mux.Matcher{}
				}
				x.matcherCache[t[1]] = m
			}
			req := mkRequest(t[2], t[3], t[4], t[5])
			ctx := types.NewContext()
			defer ctx.Destroy()
			for _, e := range decM(t[7]) {
				ctx.Set(e.k, e.v)
			}
			ok := m.Match(req, ctx)
			ps := map[string]string{}
			ctx.Range(func(k, v string) { ps[k] = v })
			return fmt.Sprintf("match %s path=%s params=%s", b2s(ok), encB(req.URL.Path), encMap(ps))
		})
	case t[0] == "trace-helper" && len(t) == 7:
		return protect(func() string {
			req := mkRequest(t[2], t[3], "example.com", t[4])
			req.Body = io.NopCloser(strings.NewReader(decB(t[5])))
			r := newRec()
			x.traceCalls++
			if x.traceCalls%2 == 1 { // a middleware in front of the helper chose a default Content-Type: the helper's own still goes out
				r.Header().Set("Content-Type", "application/json; charset=utf-8")
			}
			mux.Trace(r, req, t[1] == "1")
			return "trace " + fmtRec(r) + " text=" + encB(string(r.text))
		})
	case t[0] == "trace-fail" && len(t) == 7:
		// the Trace helper against a client that went away: every Write fails. Nothing of this request may survive in the
		// helper (a pooled buffer, say) — the next trace-helper line shows
		return protect(func() string {
			req := mkRequest(t[2], t[3], "example.com", t[4])
			req.Body = io.NopCloser(strings.NewReader(decB(t[5])))
			mux.Trace(failingWriter{http.Header{}}, req, t[1] == "1")
			return "tracefail ok"
		})
	case t[0] == "u-render" && len(t) == 2:
		return protect(func() string { return hookRender(atoi(t[1])) })
	case t[0] == "u-split" && len(t) == 2:
		return protect(func() string { return hookSplit(decB(t[1])) })
	case t[0] == "u-lp" && len(t) == 3:
		return protect(func() string { return hookLP(decB(t[1]), decB(t[2])) })
	case t[0] == "u-seg" && len(t) == 3:
		return protect(func() string { return hookSeg(icptRules(t[1]), decB(t[2])) })
	case t[0] == "u-match" && len(t) == 4:
		return protect(func() string { return hookMatch(icptRules(t[1]), decB(t[2]), decB(t[3])) })
	case t[0] == "dump" && len(t) == 2:
		r := x.routers[atoi(t[1])]
		if r == nil {
			return "bad-op no-router"
		}
		return protect(func() string { return hookDump(r) })
	case t[0] == "pf" && len(t) == 3:
		return "ok"
	case t[0] == "ctx-new" && len(t) == 2:
		c := types.NewContext()
		x.ctxs[atoi(t[1])] = c
		return fmt.Sprintf("ctx count=%d path=%s router=%s node=%s", c.Count(), encB(c.Path), encB(c.RouterName()), b2s(c.Node() != nil))
	case strings.HasPrefix(t[0], "ctx-"):
		c := x.ctxs[atoi(t[1])]
		if c == nil {
			return "bad-op"
		}
		return protect(func() string { return x.ctxOp(c, t) }) // a Params accessor that panics is an observation ("fault"), not the end of the run
	}
	return "bad-op"
}

type dummyNode struct{}

func (dummyNode) Pattern() string     { return "" }
func (dummyNode) Methods() []string   { return nil }
func (dummyNode) AllowHeader() string { return "" }

func (x *executor) ctxOp(c *types.Context, t []string) string {
	switch {
	case t[0] == "ctx-dirty" && len(t) == 5:
		c.Path = decB(t[2])
		c.SetRouterName(decB(t[3]))
		if t[4] == "1" {
			c.SetNode(dummyNode{})
		} else {
			c.SetNode(nil)
		}
		return "ok"
	case t[0] == "ctx-set" && len(t) == 4:
		c.Set(decB(t[2]), decB(t[3]))
		return "ok"
	case t[0] == "ctx-del" && len(t) == 3:
		c.Delete(decB(t[2]))
		return "ok"
	case t[0] == "ctx-reset" && len(t) == 2:
		c.Reset()
		return "ok"
	case t[0] == "ctx-destroy" && len(t) == 2:
		c.Destroy()
		id, _ := strconv.Atoi(t[1])
		delete(x.ctxs, id)
		return "ok"
	case t[0] == "ctx-dump" && len(t) == 2:
		// Range, with a second Range started inside the callback (two iterations alive at once on one Params value): the
		// outer one still visits every parameter exactly once, the inner one sees all of them every time
		m := map[string]string{}
		visits := map[string]int{}
		nested := "ok"
		c.Range(func(k, v string) {
			m[k] = v
			visits[k]++
			n := 0
			c.Range(func(string, string) { n++ })
			if n != c.Count() {
				nested = "inner-saw-" + strconv.Itoa(n)
			}
		})
		if len(visits) != c.Count() {
			nested = "outer-visited-" + strconv.Itoa(len(visits)) + "-keys"
		}
		for _, n := range visits {
			if n != 1 {
				nested = "outer-visited-a-key-" + strconv.Itoa(n) + "-times"
			}
		}
		return fmt.Sprintf("dump count=%d range=%s nested=%s", c.Count(), encMap(m), nested)
	case t[0] == "ctx-acc" && len(t) == 8:
		key := decB(t[2])
		di, _ := strconv.ParseInt(t[4], 10, 64)
		du, _ := strconv.ParseUint(t[5], 10, 64)
		dfv, _ := strconv.ParseFloat(decB(t[7]), 64)
		fb := func(b bool) string {
			if b {
				return "true"
			}
			return "false"
		}
		get := "%!"
		if v, ok := c.Get(key); ok {
			get = encB(v)
		}
		s, serr := c.String(key)
		i, ierr := c.Int(key)
		u, uerr := c.Uint(key)
		b, berr := c.Bool(key)
		f, ferr := c.Float(key)
		parts := []string{
			"exists=" + b2s(c.Exists(key)),
			"get=" + get,
			"string=" + fmtAcc(encB(s), serr),
			"mustString=" + encB(c.MustString(key, decB(t[3]))),
			"int=" + fmtAcc(strconv.FormatInt(i, 10), ierr),
			"mustInt=" + strconv.FormatInt(c.MustInt(key, di), 10),
			"uint=" + fmtAcc(strconv.FormatUint(u, 10), uerr),
			"mustUint=" + strconv.FormatUint(c.MustUint(key, du), 10),
			"bool=" + fmtAcc(fb(b), berr),
			"mustBool=" + fb(c.MustBool(key, t[6] == "1")),
			"float=" + fmtAcc(encB(fmtFloat(f)), ferr),
			"mustFloat=" + encB(fmtFloat(c.MustFloat(key, dfv))),
		}
		return "acc " + strings.Join(parts, " ")
	}
	return "bad-op"
}

func fmtFloat(f float64) string { return strconv.FormatFloat(f, 'g', -1, 64) }

func fmtAcc(v string, err error) string {
	if err == nil {
		return "ok:" + v
	}
	if err == types.ErrParamNotExists() {
		return "not-exists"
	}
	if ne, ok := err.(*strconv.NumError); ok {
		if ne.Err == strconv.ErrRange {
			return "range:" + v
		}
		return "syntax"
	}
	return "other"
}

func icptAny(s string) bool { return len(s) > 0 }
func icptDigit(s string) bool {
	for _, c := range s {
		if c < '0' || c > '9' {
			return false
		}
	}
	return len(s) > 0
}
func icptWord(s string) bool {
	for _, c := range s {
		if (c < '0' || c > '9') && (c < 'a' || c > 'z') && (c < 'A' || c > 'Z') {
			return false
		}
	}
	return len(s) > 0
}

func protectRouter(name string, f func() string) (out string) {
	defer func() {
		if v := recover(); v != nil {
			if _, ok := v.(runtime.Error); ok {
				out = "fault"
			} else if name == "" {
				out = "reject:empty-name"
			} else {
				out = "reject:bad-option"
			}
		}
	}()
	return f()
}

func protectDup(f func() string) (out string) {
	defer func() {
		if v := recover(); v != nil {
			if _, ok := v.(runtime.Error); ok {
				out = "fault"
			} else {
				out = "reject:dup-interceptor"
			}
		}
	}()
	return f()
}

func protectGroup(f func() string) (out string) {
	defer func() {
		if v := recover(); v != nil {
			if _, ok := v.(runtime.Error); ok {
				out = "fault"
			} else if s, ok := v.(string); ok && strings.Contains(s, "已经存在名为") {
				out = "reject:dup-name"
			} else if s, ok := v.(string); ok && strings.Contains(s, "name 不能为空") {
				out = "reject:empty-name"
			} else if s, ok := v.(string); ok && strings.Contains(s, "不能为空值") {
				out = "reject:empty-version"
			} else {
				out = "reject:other"
			}
		}
	}()
	return f()
}

func protectVersion(f func() string) (out string) {
	defer func() {
		if v := recover(); v != nil {
			if _, ok := v.(runtime.Error); ok {
				out = "fault"
			} else {
				out = "reject:empty-version"
			}
		}
	}()
	return f()
}

func runExec(in io.Reader, out io.Writer) {
	x := newExecutor()
	sc := bufio.NewScanner(in)
	sc.Buffer(make([]byte, 1<<20), 1<<26)
	w := bufio.NewWriter(out)
	defer w.Flush()
	for sc.Scan() {
		fmt.Fprintln(w, x.step(sc.Text()))
		w.Flush()
	}
}

func init() { _ = os.Stdout }
