module verif/harness

go 1.23.0

require github.com/issue9/mux/v9 v9.0.0

require (
	github.com/issue9/assert/v4 v4.3.1 // indirect
	github.com/issue9/errwrap v0.3.2 // indirect
	github.com/issue9/source v0.12.5 // indirect
	golang.org/x/mod v0.24.0 // indirect
)

replace github.com/issue9/mux/v9 => /repo
